"""Heap objects, zero values, fresh values, value merge (ite) and equality."""
import z3
from .terms import *
from .values import *
from .core import Unsupported


class Obj:
    __slots__ = ("id", "kind", "tid", "val", "site", "shared", "owner", "meta")

    def __init__(self, id, kind, tid, val, site=None):
        self.id = id
        self.kind = kind  # var | array | map | chan | iter | opaque
        self.tid = tid
        self.val = val
        self.site = site
        self.shared = False
        self.owner = None
        self.meta = {}


class MapVal:
    """entries: list of (key, val, present)"""
    __slots__ = ("entries",)

    def __init__(self, entries):
        self.entries = entries


class ChanVal:
    __slots__ = ("cap", "buf", "len", "closed")

    def __init__(self, cap, buf, ln, closed=False):
        self.cap = cap  # concrete int
        self.buf = buf  # list of cap values (slot i = i-th oldest)
        self.len = ln  # int term
        self.closed = closed


class ValueOps:
    """mixin: needs self.prog, self.heap, self.fresh_counter"""

    # ------------------------------------------------------------ zero values
    def zero(self, tid):
        t, d = self.prog.under(tid)
        k = d["kind"]
        if k == "basic":
            c = d.get("cls")
            if c == "int":
                return 0
            if c == "bool":
                return False
            if c == "string":
                return StrV([], 0)
            if c == "float":
                return FloatV(0.0)
            if c == "unsafeptr":
                return Ptr.nil()
            if c == "nil":
                return None
            raise Unsupported("zero of basic " + str(d))
        if k == "pointer":
            return Ptr.nil()
        if k == "struct":
            return StructV([self.zero(f["type"]) for f in d["fields"]])
        if k == "array":
            return ArrayV([self.zero(d["elem"]) for _ in range(d["len"])])
        if k == "slice":
            return SliceV.nil()
        if k == "map":
            return Ptr.nil()
        if k == "chan":
            return Ptr.nil()
        if k == "func":
            return FuncV.nil()
        if k == "interface":
            return IfaceV.nil()
        if k == "tuple":
            return TupleV([self.zero(e) for e in d["elems"]])
        raise Unsupported("zero of kind " + k + " " + tid)

    # ------------------------------------------------------------ allocation
    def alloc(self, kind, tid, val, site=None):
        o = Obj(len(self.heap), kind, tid, val, site)
        o.owner = getattr(self, "cur_thread", None)
        self.heap.append(o)
        return o

    # ------------------------------------------------------------ fresh values
    def fresh_name(self, base):
        self.fresh_counter += 1
        return "%s!%d" % (base, self.fresh_counter)

    def fresh_int(self, name, bits):
        return z3.BitVec(self.fresh_name(name), bits)

    def fresh_bool(self, name):
        return z3.Bool(self.fresh_name(name))

    def fresh(self, tid, name="h", depth=2, strcap=None):
        """unconstrained value of a type (used by auto-stubs / havoc)."""
        t, d = self.prog.under(tid)
        k = d["kind"]
        if k == "basic":
            c = d.get("cls")
            if c == "int":
                return self.fresh_int(name, d["bits"])
            if c == "bool":
                return self.fresh_bool(name)
            if c == "string":
                n = self.opts.get("fresh_str_cap", 3) if strcap is None else strcap
                chars = [self.fresh_int(name + ".c", 8) for _ in range(n)]
                ln = self.fresh_int(name + ".len", 64)
                self.assume(b_and(z3.BitVecVal(0, 64) <= ln, ln <= z3.BitVecVal(n, 64)), True, "fresh string length")
                VAR_BOUNDS[ln.decl().name()] = (0, n)
                return StrV(chars, ln)
            if c == "float":
                return FloatV(z3.FP(self.fresh_name(name), z3.Float64()))
            if c == "unsafeptr":
                return Ptr.nil()
            raise Unsupported("fresh of basic " + str(d))
        if k == "struct":
            return StructV([self.fresh(f["type"], name + "." + f["name"], depth, strcap) for f in d["fields"]])
        if k == "array":
            return ArrayV([self.fresh(d["elem"], name + "[]", depth, strcap) for _ in range(d["len"])])
        if k == "tuple":
            return TupleV([self.fresh(e, name, depth, strcap) for e in d["elems"]])
        if k == "interface":
            # nil, or an opaque dynamic value
            isnil = self.fresh_bool(name + ".isnil")
            ident = self.fresh_int(name + ".id", 64)
            return IfaceV([(isnil, None, None), (b_not(isnil), "verif.opaque", Opaque(ident, tid))])
        if k == "pointer":
            if depth <= 0:
                return Ptr.nil()
            isnil = self.fresh_bool(name + ".isnil")
            o = self.alloc("var", d["elem"], None, site="fresh:" + name)
            o.val = self.fresh(d["elem"], name + ".*", depth - 1, strcap)
            return Ptr([(isnil, None), (b_not(isnil), Ref(o.id))])
        if k == "slice":
            return SliceV.nil()
        if k == "map":
            return Ptr.nil()
        if k == "chan":
            return Ptr.nil()
        if k == "func":
            return FuncV.nil()
        raise Unsupported("fresh of kind " + k)

    # ------------------------------------------------------------ merge
    def _sub_tids(self, tid, n, what):
        if tid is None:
            return [None] * n
        try:
            t, d = self.prog.under(tid)
        except Unsupported:
            return [None] * n
        if what == "struct" and d["kind"] == "struct":
            return [f["type"] for f in d["fields"]]
        if what == "array" and d["kind"] == "array":
            return [d["elem"]] * n
        if what == "tuple" and d["kind"] == "tuple":
            return list(d["elems"])
        return [None] * n

    def ite(self, c, a, b, tid=None):
        """value-level if-then-else (kind directed)"""
        if c is True:
            return a
        if c is False:
            return b
        if a is b:
            return a
        if a is None:
            return b
        if b is None:
            return a
        ta = type(a)
        if ta is bool or (isinstance(a, z3.ExprRef) and z3.is_bool(a)) or isinstance(b, bool) or (isinstance(b, z3.ExprRef) and z3.is_bool(b)):
            return b_ite(c, a, b)
        if isinstance(a, int) or isinstance(b, int) or isinstance(a, z3.BitVecRef) or isinstance(b, z3.BitVecRef):
            if isinstance(a, int) and isinstance(b, int):
                if a == b:
                    return a
                ii = self.prog.int_info(tid) if tid is not None else None
                if ii is None:
                    raise Unsupported("ite of two concrete ints without width (tid=%s)" % tid)
                return i_ite(c, a, b, ii[0])
            bits = a.size() if not isinstance(a, int) else b.size()
            return i_ite(c, a, b, bits)
        if isinstance(a, Ptr):
            return Ptr(self._merge_alts([(b_and(c, g), r) for g, r in a.alts] + [(b_and(b_not(c), g), r) for g, r in b.alts]))
        if isinstance(a, StructV):
            return StructV([self.ite(c, x, y, t) for x, y, t in zip(a.fields, b.fields, self._sub_tids(tid, len(a.fields), "struct"))])
        if isinstance(a, ArrayV):
            return ArrayV([self.ite(c, x, y, t) for x, y, t in zip(a.elems, b.elems, self._sub_tids(tid, len(a.elems), "array"))])
        if isinstance(a, TupleV):
            return TupleV([self.ite(c, x, y, t) for x, y, t in zip(a.elems, b.elems, self._sub_tids(tid, len(a.elems), "tuple"))])
        if isinstance(a, SliceV):
            return SliceV(self.ite(c, a.arr, b.arr), self.ite_int(c, a.off, b.off, 64), self.ite_int(c, a.len, b.len, 64), self.ite_int(c, a.cap, b.cap, 64))
        if isinstance(a, StrV):
            n = max(len(a.chars), len(b.chars))
            ca = a.chars + [0] * (n - len(a.chars))
            cb = b.chars + [0] * (n - len(b.chars))
            return StrV([self.ite_int(c, x, y, 8) for x, y in zip(ca, cb)], self.ite_int(c, a.len, b.len, 64))
        if isinstance(a, IfaceV):
            alts = [(b_and(c, g), t, p) for g, t, p in a.alts] + [(b_and(b_not(c), g), t, p) for g, t, p in b.alts]
            return IfaceV(self._merge_iface_alts(alts))
        if isinstance(a, FuncV):
            alts = [(b_and(c, g), f, bd) for g, f, bd in a.alts] + [(b_and(b_not(c), g), f, bd) for g, f, bd in b.alts]
            return FuncV(self._merge_func_alts(alts))
        if isinstance(a, Opaque):
            return Opaque(self.ite_int(c, a.ident, b.ident, 64), a.info)
        if isinstance(a, FloatV):
            if isinstance(a.v, float) and isinstance(b.v, float) and a.v == b.v:
                return a
            return FloatV(z3.If(to_z3_bool(c), self.fp(a.v), self.fp(b.v)))
        if hasattr(a, "merge"):
            return a.merge(self, c, b)
        raise Unsupported("ite of %s / %s" % (type(a), type(b)))

    def fp(self, v):
        if isinstance(v, float):
            return z3.FPVal(v, z3.Float64())
        return v

    def ite_int(self, c, a, b, bits):
        return i_ite(c, a, b, bits)

    def _merge_alts(self, alts):
        out = {}
        order = []
        for g, r in alts:
            if g is False:
                continue
            k = None if r is None else r.key()
            if k in out:
                out[k] = (b_or(out[k][0], g), r)
            else:
                out[k] = (g, r)
                order.append(k)
        res = [out[k] for k in order]
        if not res:
            return [(True, None)]
        return res

    def _merge_iface_alts(self, alts):
        out = []
        for g, t, p in alts:
            if g is False:
                continue
            merged = False
            for i, (g2, t2, p2) in enumerate(out):
                if t2 == t:
                    if t is None:
                        out[i] = (b_or(g2, g), None, None)
                    else:
                        try:
                            out[i] = (b_or(g2, g), t, self.ite(g, p, p2, t if t != "verif.opaque" else None))
                        except Unsupported:
                            continue
                    merged = True
                    break
            if not merged:
                out.append((g, t, p))
        if not out:
            return [(True, None, None)]
        return out

    def _merge_func_alts(self, alts):
        out = []
        for g, f, bd in alts:
            if g is False:
                continue
            merged = False
            for i, (g2, f2, bd2) in enumerate(out):
                if f2 == f and len(bd) == len(bd2):
                    fts = [fv["type"] for fv in self.prog.funcs[f]["freevars"]] if f in self.prog.funcs and "freevars" in self.prog.funcs[f] else [None] * len(bd)
                    if len(fts) != len(bd):
                        fts = [None] * len(bd)
                    nb = tuple(self.ite(g, x, y, t) for x, y, t in zip(bd, bd2, fts))
                    out[i] = (b_or(g2, g), f, nb)
                    merged = True
                    break
            if not merged:
                out.append((g, f, bd))
        if not out:
            return [(True, None, ())]
        return out

    # ------------------------------------------------------------ equality
    def eq(self, a, b, tid=None):
        """symbolic equality of two values of the same static type"""
        if a is None and b is None:
            return True
        if isinstance(a, bool) or isinstance(b, bool) or (isinstance(a, z3.ExprRef) and z3.is_bool(a)):
            return b_eq(a, b)
        if isinstance(a, int) and isinstance(b, int):
            return a == b
        if isinstance(a, (int, z3.BitVecRef)) and isinstance(b, (int, z3.BitVecRef)):
            bits = a.size() if not isinstance(a, int) else b.size()
            return int_cmp("==", a, b, bits, False)
        if isinstance(a, Ptr) and isinstance(b, Ptr):
            res = []
            for g1, r1 in a.alts:
                for g2, r2 in b.alts:
                    k1 = None if r1 is None else r1.key()
                    k2 = None if r2 is None else r2.key()
                    if k1 == k2:
                        res.append(b_and(g1, g2))
            return b_or(*res)
        if isinstance(a, StrV) and isinstance(b, StrV):
            return self.str_eq(a, b)
        if isinstance(a, StructV):
            return b_and(*[self.eq(x, y) for x, y in zip(a.fields, b.fields)])
        if isinstance(a, ArrayV):
            return b_and(*[self.eq(x, y) for x, y in zip(a.elems, b.elems)])
        if isinstance(a, IfaceV) and isinstance(b, IfaceV):
            res = []
            for g1, t1, p1 in a.alts:
                for g2, t2, p2 in b.alts:
                    if t1 is None and t2 is None:
                        res.append(b_and(g1, g2))
                    elif t1 is not None and t2 is not None and self.prog.canon(t1) == self.prog.canon(t2):
                        res.append(b_and(g1, g2, self.eq(p1, p2)))
            return b_or(*res)
        if isinstance(a, Opaque) and isinstance(b, Opaque):
            return int_cmp("==", a.ident, b.ident, 64, False)
        if isinstance(a, FuncV) and isinstance(b, FuncV):
            # only nil comparisons are legal in Go
            res = []
            for g1, f1, _ in a.alts:
                for g2, f2, _ in b.alts:
                    if f1 is None and f2 is None:
                        res.append(b_and(g1, g2))
            return b_or(*res)
        if isinstance(a, SliceV) and isinstance(b, SliceV):
            # slice == nil only
            return b_and(self.eq(a.arr, b.arr))
        if isinstance(a, FloatV) and isinstance(b, FloatV):
            if isinstance(a.v, float) and isinstance(b.v, float):
                return a.v == b.v
            return z3.fpEQ(self.fp(a.v), self.fp(b.v))
        raise Unsupported("eq of %s / %s" % (type(a), type(b)))

    def str_eq(self, a, b):
        if a.is_conc() and b.is_conc():
            return a.conc() == b.conc()
        n = min(len(a.chars), len(b.chars))
        conds = [int_cmp("==", a.len, b.len, 64, True)]
        if isinstance(a.len, int) and a.len > n:
            return False
        if isinstance(b.len, int) and b.len > n:
            return False
        # if lengths are equal they are both <= n
        upto = n
        if isinstance(a.len, int):
            upto = min(upto, a.len)
        if isinstance(b.len, int):
            upto = min(upto, b.len)
        for i in range(upto):
            ce = int_cmp("==", a.chars[i], b.chars[i], 8, False)
            if isinstance(a.len, int) or isinstance(b.len, int):
                conds.append(ce)  # i < len is concrete-true here
            else:
                conds.append(b_or(int_cmp("<=", a.len, i, 64, True), ce))
        return b_and(*conds)

    def str_lt(self, a, b):
        if a.is_conc() and b.is_conc():
            return a.conc() < b.conc()
        # lexicographic: exists i: prefix equal up to i and (a[i] < b[i]) or a is strict prefix
        n = max(len(a.chars), len(b.chars))
        res = False
        prefix_eq = True
        for i in range(n + 1):
            a_end = int_cmp("<=", a.len, i, 64, True)
            b_end = int_cmp("<=", b.len, i, 64, True)
            # a ended, b not -> less
            res = b_or(res, b_and(prefix_eq, a_end, b_not(b_end)))
            if i >= len(a.chars) or i >= len(b.chars):
                break
            lt = int_cmp("<", a.chars[i], b.chars[i], 8, False)
            e = int_cmp("==", a.chars[i], b.chars[i], 8, False)
            both = b_and(b_not(a_end), b_not(b_end))
            res = b_or(res, b_and(prefix_eq, both, lt))
            prefix_eq = b_and(prefix_eq, both, e)
        return res
