P = "github.com/tochemey/goakt/v4/actor."
SUB = {"(*" + P + "PID).dispatchOne": P + "vC01_dispatchOne",
       "(*" + P + "dispatcher).schedule": P + "vC01_schedule",
       "(*" + P + "worker).reschedule": P + "vC01_reschedule"}
SUB_RESTART = dict(SUB)
SUB_RESTART.update({
    "(*" + P + "PID).cancelInFlightRequests": P + "vC01_noopCancel",
    "(*" + P + "tree).node": P + "vC01_treeNode",
    "(*" + P + "PID).init": P + "vC01_init",
    "(*" + P + "PID).resetBehavior": P + "vC01_noop",
    "(*" + P + "PID).startPassivation": P + "vC01_noop",
    "(*" + P + "tree).addOrAttachNode": P + "vC01_attach",
    "(*" + P + "tree).addWatcher": P + "vC01_addWatcher",
    "(*" + P + "PID).fireSystemMessage": P + "vC01_fire",
    "(*" + P + "PID).registerMetrics": P + "vC01_registerMetrics",
    "(*" + P + "PID).ID": P + "vC01_id",
})
G = lambda n: "(*" + P + "grainPID)." + n
SUB_GRAIN = {G("handleGrainContext"): P + "vC31_onReceive", G("deactivate"): P + "vC31_deactivateFn", G("teardownInFlightRequests"): P + "vC31_teardown",
             G("recovery"): P + "vC31_recovery", "(*" + P + "GrainContext).NoErr": P + "vC31_noErr", "(*" + P + "GrainContext).Err": P + "vC31_errFn",
             "(*" + P + "dispatcher).schedule": P + "vC31_schedule", "(*" + P + "worker).reschedule": P + "vC31_reschedule"}
CHECK = {
    "id": "C01",
    "packages": ["./actor"],
    "harness": ["actor/zz_verif_c01.go", "actor/zz_verif_c31.go"],
    "replace": [{"file": "actor/pools.go", "old": "const contextPoolSize = 8192", "new": "const contextPoolSize = 2"}],
    "entries": [
        {"fn": P + "vC01_basic", "replay": "model-only"},
        {"fn": P + "vC01_restart", "replay": "model-only", "opts": {"substitute": SUB_RESTART, "go_ignore": True, "stub": ["(*" + P + "PID).Shutdown"]}},
        {"fn": P + "vC01_restartSuspended", "replay": "model-only", "opts": {"substitute": SUB_RESTART, "go_ignore": True, "stub": ["(*" + P + "PID).Shutdown"]}},
        # the grain turn loop (grain_pid.go receive/runTurn/finishOrReclaim): the C31 scenario, which asserts that no two OnReceive overlap
        {"fn": P + "vC31_turns", "replay": "model-only", "cover_optional": ("pending",), "opts": {"substitute": SUB_GRAIN, "feasibility": False}},
    ],
    "opts_thorough": {"rounds": 5},
    "opts": {"rounds": 3, "unwind": 4, "unwind_mode": "assume", "substitute": SUB},
    "stop": list(SUB_RESTART.keys()) + list(SUB_GRAIN.keys()),
    "timeout_ms": {"quick": 600000, "thorough": 1800000},
    "explanation": "PID.doReceive, runTurn, finishOrReclaim, dispatchState.*, real UnboundedMailbox under solver-chosen interleavings; dispatchOne is substituted by a ghost handler that asserts mutual exclusion; the dispatcher's ready queue is an abstract token channel (C05 covers the real one). vC01_restart/vC01_restartSuspended run the real restartSubtree (environment substituted) against senders and workers; vC31_turns runs the grain turn loop (grainPID.receive/runTurn/finishOrReclaim, real grainMailbox) with a ghost OnReceive that asserts mutual exclusion.",
    "bounds": {"threads": "2 senders x 1 message, 2 workers x 1 turn", "rounds": 3, "throughput": 2, "context pool": 2},
}
