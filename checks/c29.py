M = "github.com/tochemey/goakt/v4/"
A = M + "actor."
C = M + "internal/remoteclient."
SUBST = {
    "context.WithValue": C + "VC29_withValue",
    "(net/http.Header).Set": C + "VC29_headerSet",
    "(*" + C[:-1] + ".client).resolveSerializer": C + "vC29_resolve",
    "(*" + C[:-1] + ".client).getCoalescer": C + "vC29_getCoalescer",
    "(*" + C[:-1] + ".coalescer).submit": C + "vC29_submit",
    "(*" + C[:-1] + ".client).NetClient": C + "vC29_netClient",
    "(*" + M + "internal/net.Client).SendProto": C + "vC29_sendProto",
    "(*" + M + "remote.Config).ContextPropagator": A + "vC29_propagator",
    "(*" + A[:-1] + ".actorSystem).handleRemoteTell": A + "vC29_handleRemoteTell",
    "(*" + A[:-1] + ".actorSystem).newRemoteSenderPID": A + "vC29_senderPID",
}
MO = "model-only"
CHECK = {
    "id": "C29",
    "packages": ["./actor", "./internal/remoteclient"],
    "harness": ["actor/zz_verif_c29.go", "internal/remoteclient/zz_verif_c29.go"],
    "entries": [
        {"fn": C + "vC29_inject", "replay": MO, "cases": {"headers": [0, 1, 2]}, "cover_optional": ("none",)},
        {"fn": A + "vC29_batch", "replay": MO, "cases_quick": {"headers": [2, 4, 6, 8], "firstCaller": [0, 1]}, "cases_thorough": {"headers": [0, 1, 2, 3, 4, 5, 6, 7, 8], "firstCaller": [0, 1]}, "cover_optional": ("both-callers-with-headers",)},
        {"fn": A + "vC29_single", "replay": MO, "cases_quick": {"headers0": [0, 2]}, "cases_thorough": {"headers0": [0, 1, 2]}},
        {"fn": A + "vC29_respelled", "replay": MO},
    ],
    "opts": {"unwind": 16, "substitute": SUBST},
    "explanation": "End to end over the real send and receive code with the wire as identity on map<string,string>: internal/remoteclient client.RemoteTell (both arms), injectMessageMetadata, enrichContext, checkProtoError; internal/net Metadata.Set/IterateHeaders/ToContext/FromContext/ContextWithMetadata; actor actorSystem.remoteTellHandler (the batch loop), deliverRemoteTellMessage, messageMetadata, extractContextWithPropagator, tree.node, PID.IsRunning. Two callers with different, symbolic header sets (0..2 headers each; the same key may occur at both callers with different values) tell the same destination through the coalesced arm, in either order; the accepted messages form one batch; the receiving node's handler is run on that batch. Asserted: message i is delivered in batch order with a context whose restored header map EQUALS the map injected for ITS caller, every header single-valued; the context of each message derives from the request context, never from the previous message's; a message whose caller injected nothing gets the request context itself (no neighbour's headers). Non-coalesced arm (also what RemoteAsk uses): enrichContext puts the headers into the request metadata and extractContextWithPropagator restores exactly them. Keys in a non-canonical spelling come back canonicalised (cover point 'key-respelled', not a violation). Substituted: the ContextPropagator (harness: Inject writes the caller's headers, Extract records what it is given and its parent context), context.WithValue (harness value context), http.Header.Set (canonicalises letters/digits/'-' keys like textproto), serializer choice and payload codec (C25), the per-destination coalescer queue (submit appends to the batch; its concurrency is C27), the socket (NetClient/SendProto record the request), remote.Config.ContextPropagator (returns the harness propagator), newRemoteSenderPID (nil; address parsing is C26) and handleRemoteTell (records context and payload instead of enqueueing).",
    "bounds": {'callers': 2, 'messages per batch': 2, 'headers per caller': '0..2; keys of 2 and 3 bytes from [A-Za-z0-9-] in canonical MIME spelling (what http.Header.Set produces), values 1 byte; contents symbolic', 'batch shapes': 'quick 4 of the 9 (n0,n1) combinations x both orders, thorough all 9'},
    "assumptions": ['header map = string -> string as the wire schema (map<string,string>) defines: propagators that write several values per key keep only the first (injectMessageMetadata/enrichContext take v[0]) - outside the claim', 'propagators write keys in canonical MIME spelling (http.Header.Set); otherwise keys come back canonicalised', "protobuf carries map<string,string> unchanged; the frame-level metadata codec is C23's subject", "interleaving of concurrent callers is reduced to the order in which the coalescer accepts their messages (both orders checked); the coalescer itself is C27's subject"],
    "timeout_ms": {"quick": 900000, "thorough": 1800000},
}
