M = "github.com/tochemey/goakt/v4/"
A = M + "actor."
C = M + "internal/remoteclient."
SUBST = {
    "context.WithValue": C + "VC29_withValue",
    "(net/http.Header).Set": C + "VC29_headerSet",
    "(*" + C[:-1] + ".client).resolveSerializer": C + "vC29_resolve",
    "(*" + C[:-1] + ".client).getCoalescer": C + "vC29_getCoalescer",
    "(*" + C[:-1] + ".coalescer).submit": C + "vC29_submit",
    "(*" + C[:-1] + ".client).NetClient": C + "vC29_netClient",
    "(*" + M + "internal/net.Client).SendProto": C + "vC29_sendProto",
    "(*" + M + "remote.Config).ContextPropagator": A + "vC29_propagator",
    "(*" + A[:-1] + ".actorSystem).handleRemoteTell": A + "vC29_handleRemoteTell",
}
MO = "model-only"
CHECK = {
    "id": "C29",
    "packages": ["./actor", "./internal/remoteclient"],
    "harness": ["actor/zz_verif_c29.go", "internal/remoteclient/zz_verif_c29.go"],
    "entries": [
        {"fn": C + "vC29_inject", "replay": MO, "cases": {"headers": [0, 1, 2]}, "cover_optional": ("none",)},
        {"fn": A + "vC29_batch", "replay": MO, "cases_quick": {"headers": [2, 4, 6, 8]}, "cases_thorough": {"headers": [0, 1, 2, 3, 4, 5, 6, 7, 8]}, "cover_optional": ("both-callers-with-headers",)},
        {"fn": A + "vC29_single", "replay": MO, "cases_quick": {"headers0": [0, 2]}, "cases_thorough": {"headers0": [0, 1, 2]}},
        {"fn": A + "vC29_respelled", "replay": MO},
    ],
    "opts": {"unwind": 16, "substitute": SUBST},
    "explanation": "",
    "bounds": {},
    "assumptions": [],
    "timeout_ms": {"quick": 900000, "thorough": 1800000},
}
