P = "github.com/tochemey/goakt/v4/actor."
SUB = {"(*" + P + "ReceiveContext).Tell": P + "vC21_rctxTell", "(*" + P + "PID).Tell": P + "vC21_pidTell"}
HSUB = dict(SUB)
HSUB.update({"slices.Sort[[]uint64 uint64]": P + "vC21_sort", "sort.Search": P + "vC21_search", P + "stringToBytes": P + "vC21_s2b"})
PSUB = dict(SUB)
PSUB.update({"slices.SortFunc[[]*" + P + "PID *" + P + "PID]": P + "vC21_sortPIDs"})
CHECK = {
    "id": "C21",
    "packages": ["./actor"],
    "harness": ["actor/zz_verif_c21.go"],
    "entries": [
        {"fn": P + "vC21_roundrobin", "replay": "model-only"},
        {"fn": P + "vC21_fresh", "replay": "model-only"},
        {"fn": P + "vC21_random", "replay": "model-only"},
        {"fn": P + "vC21_fanout", "replay": "model-only"},
        {"fn": P + "vC21_hashRing", "replay": "model-only", "cover_optional": ("wrap-around",), "cases": {"removed": [0, 1, 2], "layout": [0, 1, 2]}, "opts": {"substitute": HSUB, "unwind": 10, "birth_guard_stores": True}},
        {"fn": P + "vC21_rrPool", "replay": "model-only", "opts": {"substitute": PSUB, "unwind": 6, "map_order": "dihedral", "birth_guard_stores": True}},
        {"fn": P + "vC21_hashRouter", "replay": "model-only", "cases": {"layout": [0, 1, 2]}, "opts": {"substitute": HSUB, "unwind": 10, "birth_guard_stores": True}},
    ],
    "opts": {"unwind": 7, "substitute": SUB, "go_inline": True},
    "stop": list(HSUB.keys()) + list(PSUB.keys()),
    "explanation": "router.dispatchToRoutees/routeByStrategy executed symbolically for round-robin (arbitrary uint32 counter, two consecutive messages; fresh router, 5 messages), random and fan-out; ReceiveContext.Tell / PID.Tell are substituted by recorders.",
    "bounds": {"routees": "1..4", "counter": "any uint32", "messages": "2 from an arbitrary counter; 5 from a fresh router"},
}
