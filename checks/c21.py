P = "github.com/tochemey/goakt/v4/actor."
SUB = {"(*" + P + "ReceiveContext).Tell": P + "vC21_rctxTell", "(*" + P + "PID).Tell": P + "vC21_pidTell"}
CHECK = {
    "id": "C21",
    "packages": ["./actor"],
    "harness": ["actor/zz_verif_c21.go"],
    "entries": [
        {"fn": P + "vC21_roundrobin", "replay": "model-only"},
        {"fn": P + "vC21_fresh", "replay": "model-only"},
        {"fn": P + "vC21_random", "replay": "model-only"},
        {"fn": P + "vC21_fanout", "replay": "model-only"},
    ],
    "opts": {"unwind": 7, "substitute": SUB, "go_inline": True},
    "stop": list(SUB.keys()),
    "explanation": "router.dispatchToRoutees/routeByStrategy executed symbolically for round-robin (arbitrary uint32 counter, two consecutive messages; fresh router, 5 messages), random and fan-out; ReceiveContext.Tell / PID.Tell are substituted by recorders.",
    "bounds": {"routees": "1..4", "counter": "any uint32", "messages": "2 from an arbitrary counter; 5 from a fresh router"},
}
