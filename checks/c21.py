P = "github.com/tochemey/goakt/v4/actor."
SUB = {"(*" + P + "ReceiveContext).Tell": P + "vC21_rctxTell", "(*" + P + "PID).Tell": P + "vC21_pidTell"}
HSUB = dict(SUB)
HSUB.update({"slices.Sort[[]uint64 uint64]": P + "vC21_sort", "sort.Search": P + "vC21_search", P + "stringToBytes": P + "vC21_s2b"})
PSUB = dict(SUB)
PSUB.update({"slices.SortFunc[[]*" + P + "PID *" + P + "PID]": P + "vC21_sortPIDs"})
CHECK = {
    "id": "C21",
    "packages": ["./actor"],
    "harness": ["actor/zz_verif_c21.go"],
    "entries": [
        {"fn": P + "vC21_roundrobin", "replay": "model-only"},
        {"fn": P + "vC21_fresh", "replay": "model-only"},
        {"fn": P + "vC21_random", "replay": "model-only"},
        {"fn": P + "vC21_fanout", "replay": "model-only"},
        {"fn": P + "vC21_hashRing", "replay": "model-only", "cover_optional": ("wrap-around",), "cases": {"removed": [0, 1, 2], "layout": [0, 1, 2]}, "opts": {"substitute": HSUB, "unwind": 10, "birth_guard_stores": True}},
        {"fn": P + "vC21_rrPool", "replay": "model-only", "opts": {"substitute": PSUB, "unwind": 6, "map_order": "dihedral", "birth_guard_stores": True}},
        {"fn": P + "vC21_hashRouter", "replay": "model-only", "cases": {"layout": [0, 1, 2]}, "opts": {"substitute": HSUB, "unwind": 10, "birth_guard_stores": True}},
    ],
    "opts": {"unwind": 7, "substitute": SUB, "go_inline": True},
    "stop": list(HSUB.keys()) + list(PSUB.keys()),
    "explanation": "router.dispatchToRoutees/routeByStrategy executed symbolically for round-robin (arbitrary uint32 counter, two consecutive messages; fresh router, 5 messages), random and fan-out; ReceiveContext.Tell / PID.Tell are substituted by recorders. vC21_rrPool runs handleBroadcast -> availableRoutees -> dispatchToRoutees three times over a 3-routee Go map whose iteration order the solver chooses anew for every message (engine opt map_order=dihedral: all 6 orders): the three messages must reach three different routees. vC21_hashRing runs consistentHashRing.set/lookup (slices.Sort, sort.Search and the unsafe string view substituted by harness equivalents) for 3 members x 2 virtual nodes placed by a harness hasher at one of 3 fixed layouts (incl. 0, 2^63 and the largest uint64) with ARBITRARY 64-bit key hashes: keys map to a member, equal keys/hashes to the same member, and rebuilding the ring without one member moves only the keys that member owned. vC21_hashRouter runs rebuildHashRing + routeByConsistentHash through dispatchToRoutees (one routee possibly stopped).",
    "bounds": {"routees": "1..4 (3 for the pool/ring entries)", "counter": "any uint32", "messages": "2 from an arbitrary counter; 5 from a fresh router; 3 through the pool", "ring": "3 members x 2 virtual nodes, 3 fixed virtual-node layouts, key hashes any uint64; hash collisions between virtual nodes and the default hasher are outside the claim"},
}
