import importlib.util, os
_spec = importlib.util.spec_from_file_location("c18", os.path.join(os.path.dirname(os.path.abspath(__file__)), "c18.py"))
_c18 = importlib.util.module_from_spec(_spec)
_spec.loader.exec_module(_c18)
def _c18_entry(short, tiers=None):
    e = dict([x for x in _c18.CHECK["entries"] if x["fn"].endswith("." + short)][0])
    e["opts"] = dict(_c18.CHECK["opts"], **e.get("opts", {}))
    if tiers:
        e["tiers"] = tiers
    return e
P = "github.com/tochemey/goakt/v4/internal/address."
CHECK = {
    "id": "C26",
    "packages": ["./internal/address", "./actor"],
    "harness": ["internal/address/zz_verif_c26.go", "actor/zz_verif_c18.go"],
    "replace": _c18.CHECK["replace"],
    "stop": _c18.CHECK["stop"],
    "entries": [
        {"fn": P + "vC26_roundtrip", "cover_optional": ("with-parent", "no-parent"),
         "cases_quick": {"sysLen": [1, 2], "nameLen": [2], "parentLen": [0, 2], "hostLen": [1, 3], "portDigits": [1, 5]},
         "cases_thorough": {"sysLen": [1, 3], "nameLen": [1, 3], "parentLen": [0, 1, 2], "hostLen": [1, 2, 4], "portDigits": [1, 3, 5]}},
        {"fn": P + "vC26_roundtrip_ipv6", "cover_optional": ("with-parent", "no-parent"),
         "cases_quick": {"sysLen": [1], "nameLen": [2], "parentLen": [0, 1], "hostLen": [3, 4], "portDigits": [2, 5]},
         "cases_thorough": {"sysLen": [1, 2], "nameLen": [1, 2], "parentLen": [0, 2], "hostLen": [2, 3, 5], "portDigits": [1, 5]}},
        {"fn": P + "vC26_parse_any", "cover_optional": ("parsed",)},
        # the receiving side (actor/remote_server.go deliverRemoteTellMessage): the receiver is looked up by the address parsed from the
        # wire string and the sender PID is rebuilt from it: the C18 scenario (unknown / stopped / running receiver, with and without sender)
        _c18_entry("vC18_remote"),
    ],
    "opts": {"unwind": 16, "itoa_digits": 5},
    "explanation": "Address.buildString/String/HostPort/Equals, Parse, HostPortOf and strconvx.ParseInt32 (strconv.ParseInt from its real SSA) executed symbolically on symbolic-length strings; the validity predicate is a transcription of Validate's regexp and of the hostname / IPv6-literal character classes; Parse is also run on an arbitrary 14-byte string with every implicit panic an obligation.",
    "bounds": {"case split": "string lengths and port digit count are enumerated concretely per job (contents symbolic)", "system,name,parent": "1..2 bytes (quick) / lengths {1,3} for system and name, 0..2 for parent (thorough)", "host": "hostname/IPv4 class 1..4 bytes; IPv6 class (>= 2 colons) 2..5 bytes (lengths enumerated per tier in the spec)", "port": "0..65535", "arbitrary input": "<= 14 bytes"},
    "assumptions": ["strings.Index/Cut/Contains/HasPrefix, strings.Builder, strconv.AppendInt are library models (validated by selftest)", "regexp/net resolver of Validate are not executed; validity predicate transcribed in the harness"],
}
CHECK["explanation"] += " Receiving side: actorSystem.deliverRemoteTellMessage (address.Parse of the wire receiver/sender, tree lookup, newRemoteSenderPID, dead-lettering) is executed through the C18 scenario vC18_remote (concrete canonical wire strings; receiver unknown / stopped / running)."
