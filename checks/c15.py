P = "github.com/tochemey/goakt/v4/actor."
T = "github.com/tochemey/goakt/v4/internal/timer."
SUB = {"(*" + T + "Pool).Get": P + "vC15_timerGet", "(*" + T + "Pool).Put": P + "vC15_timerPut",
       "(*" + P + "PID).handleReceivedErrorWithMessage": P + "vC15_deadletter",
       "(*" + P + "PID).dispatchOne": P + "vC15_dispatchOne",
       "(*" + P + "dispatcher).schedule": P + "vC15_schedule", "(*" + P + "worker).reschedule": P + "vC15_reschedule"}
CHECK = {
    "id": "C15",
    "packages": ["./actor"],
    "harness": ["actor/zz_verif_c15.go"],
    "replace": [{"file": "actor/pools.go", "old": "const contextPoolSize = 8192", "new": "const contextPoolSize = 2"}],
    "entries": [{"fn": P + "vC15_ask", "replay": "model-only"},
                {"fn": P + "vC15_reuse", "replay": "model-only", "cases": {"api": [0, 1]}}],
    "opts_thorough": {"rounds": 4},
    "opts": {"rounds": 3, "unwind": 3, "unwind_mode": "assume", "feasibility": False, "substitute": SUB},
    "stop": list(SUB.keys()),
    "timeout_ms": {"quick": 900000, "thorough": 1800000},
    "explanation": "PID.Ask (local arm), ReceiveContext.build/Response, getContext, get/putResponseChannel/drainAnyChannel, doReceive/runTurn with the real UnboundedMailbox under solver-chosen interleavings; the timer is a harness thread, the handler replies with the asked tag, and a fourth thread plays a later Ask that takes a response channel from the pool.",
    "bounds": {"threads": "asker, timer, worker, later asker", "rounds": 3, "pools": "context/response channel pools of capacity 2"},
}
