M = "github.com/tochemey/goakt/v4/"
P = M + "internal/net."
PB = "google.golang.org/protobuf/"
SUBST = {
    PB + "proto.MessageName": P + "vC23_messageName",
    "(" + PB + "proto.MarshalOptions).Size": P + "vC23_size",
    "(" + PB + "proto.MarshalOptions).MarshalAppend": P + "vC23_marshalAppend",
    PB + "proto.Unmarshal": P + "vC23_unmarshal",
    "(*" + PB + "reflect/protoregistry.Types).FindMessageByName": P + "vC23_findMessageByName",
    "io.ReadFull": P + "vC23_readFull",
    "context.WithValue": P + "vC23_withValue",
}
SERVER = dict(SUBST)
SERVER.update({
    "(*" + P[:-1] + ".FramePool).Get": P + "vC23_poolGet",
    "(*" + P[:-1] + ".FramePool).Put": P + "vC23_poolPut",
    P + "getPooledReader": P + "vC23_getReader",
    P + "putPooledReader": P + "vC23_putReader",
})
MO = "model-only"
CHECK = {
    "id": "C23",
    "packages": ["./internal/net"],
    "harness": ["internal/net/zz_verif_c23.go"],
    "entries": [
        {"fn": P + "vC23_roundtrip", "replay": MO, "cases_quick": {"nameLen": [1, 2, 4], "payloadLen": [0, 1, 3]}, "cases_thorough": {"nameLen": [1, 2, 3, 4, 5, 6], "payloadLen": [0, 1, 2, 3, 4, 5]}, "cover_optional": ("frame>=12",)},
        {"fn": P + "vC23_roundtrip_md", "replay": MO, "cases_quick": {"nameLen": [3], "payloadLen": [0, 2], "headers": [0, 1, 2, 3], "keyLen": [0, 2], "valLen": [1]},
         "cases_thorough": {"nameLen": [1, 3, 5], "payloadLen": [0, 2, 4], "headers": [0, 1, 2, 3], "keyLen": [0, 1, 2, 3], "valLen": [0, 1, 2]}},
        {"fn": P + "vC23_metadata", "replay": MO, "cases": {"headers": [0, 1, 2]}, "opts": {"sym_slice_cap": 34}},
        {"fn": P + "vC23_deadline", "replay": MO, "opts": {"substitute": dict(SUBST, **{"time.Now": P + "vC23_now"})}},
        {"fn": P + "vC23_concat", "replay": MO, "cases": {"nameLen": [1, 3], "payloadLen": [0, 2], "firstWithMetadata": [0, 1]}},
        {"fn": P + "vC23_server", "replay": MO, "cases": {"nameLen": [1, 3], "payloadLen": [0, 2], "firstWithMetadata": [0, 1]}, "opts": {"substitute": SERVER}},
        {"fn": P + "vC23_robust_plain", "replay": MO, "cases": {"maxLen": [16]}},
        {"fn": P + "vC23_robust_md", "replay": MO, "cases": {"maxLen": [24]}},
        {"fn": P + "vC23_robust_metadata", "replay": MO, "cases": {"maxLen": [20]}},
        {"fn": P + "vC23_robust_response", "replay": MO, "cases": {"maxLen": [24]}},
        {"fn": P + "vC23_robust_read", "replay": MO, "cases": {"maxLen": [24]}},
        {"fn": P + "vC23_robust_server", "replay": MO, "cases_quick": {"maxLen": [18]}, "cases_thorough": {"maxLen": [24]}, "opts": {"substitute": SERVER, "sym_slice_cap": 32}},
        {"fn": P + "vC23_detect", "replay": MO, "cases_quick": {"nameLen": [1, 2, 3, 4], "payloadLen": [0, 1, 3]}, "cases_thorough": {"nameLen": [1, 2, 3, 4, 5, 6], "payloadLen": [0, 1, 2, 3, 4, 5]}},
        {"fn": P + "vC23_detect_md", "replay": MO, "cases_quick": {"nameLen": [1, 4], "payloadLen": [0, 1, 3], "withMetadata": [0, 1]},
         "cases_thorough": {"nameLen": [1, 2, 3, 4, 5], "payloadLen": [0, 1, 2, 3, 4], "withMetadata": [0, 1]}},
        {"fn": P + "vC23_bucket", "opts": {"unwind": 66}},
        {"fn": P + "vC23_pool", "cases_quick": {"n": [0, 256, 257], "m": [300]}, "cases_thorough": {"n": [0, 1, 255, 256, 257, 512, 513, 1024], "m": [0, 1, 300, 512]}},
    ],
    "opts": {"unwind": 64, "substitute": SUBST, "sym_slice_cap": 64},
    "explanation": "",
    "bounds": {},
    "assumptions": [],
    "timeout_ms": {"quick": 900000, "thorough": 1800000},
}
