M = "github.com/tochemey/goakt/v4/"
P = M + "internal/net."
PB = "google.golang.org/protobuf/"
SUBST = {
    PB + "proto.MessageName": P + "vC23_messageName",
    "(" + PB + "proto.MarshalOptions).Size": P + "vC23_size",
    PB + "proto.Size": P + "vC23_protoSize",
    "(" + PB + "proto.MarshalOptions).MarshalAppend": P + "vC23_marshalAppend",
    PB + "proto.Unmarshal": P + "vC23_unmarshal",
    "(*" + PB + "reflect/protoregistry.Types).FindMessageByName": P + "vC23_findMessageByName",
    "io.ReadFull": P + "vC23_readFull",
    "context.WithValue": P + "vC23_withValue",
}
SERVER = dict(SUBST)
SERVER.update({
    "(*" + P[:-1] + ".FramePool).Get": P + "vC23_poolGet",
    "(*" + P[:-1] + ".FramePool).Put": P + "vC23_poolPut",
    P + "getPooledReader": P + "vC23_getReader",
    P + "putPooledReader": P + "vC23_putReader",
})
MO = "model-only"
CHECK = {
    "id": "C23",
    "packages": ["./internal/net"],
    "harness": ["internal/net/zz_verif_c23.go"],
    "entries": [
        {"fn": P + "vC23_roundtrip", "replay": MO, "cases_quick": {"nameLen": [1, 2, 4], "payloadLen": [0, 1, 3]}, "cases_thorough": {"nameLen": [1, 2, 3, 6], "payloadLen": [0, 1, 2, 5]}, "cover_optional": ("frame>=12",)},
        {"fn": P + "vC23_roundtrip_md", "replay": MO, "cases_quick": {"nameLen": [3], "payloadLen": [0, 2], "headers": [0, 1, 2, 3], "keyLen": [0, 2], "valLen": [1]},
         "cases_thorough": {"nameLen": [1, 4], "payloadLen": [0, 3], "headers": [0, 1, 2, 3], "keyLen": [0, 3], "valLen": [0, 2]}},
        {"fn": P + "vC23_metadata", "replay": MO, "cases": {"headers": [0, 1, 2]}, "opts": {"sym_slice_cap": 34}},
        {"fn": P + "vC23_metadata_limit", "replay": MO, "cases_quick": {"fieldLen": [65535], "bigIsKey": [0, 1]}, "cases_thorough": {"fieldLen": [65534, 65535], "bigIsKey": [0, 1]}, "opts": {"max_array": 70000}},
        {"fn": P + "vC23_deadline", "replay": MO, "opts": {"substitute": dict(SUBST, **{"time.Now": P + "vC23_now"})}},
        {"fn": P + "vC23_concat", "replay": MO, "cases_quick": {"nameLen": [1, 3], "payloadLen": [0, 2], "firstWithMetadata": [0, 1]}, "cases_thorough": {"nameLen": [1, 2, 3, 5], "payloadLen": [0, 1, 2, 4], "firstWithMetadata": [0, 1]}},
        {"fn": P + "vC23_server", "replay": MO, "cases_quick": {"nameLen": [1, 3], "payloadLen": [0, 2], "firstWithMetadata": [0, 1]}, "cases_thorough": {"nameLen": [1, 2, 3, 5], "payloadLen": [0, 1, 2, 4], "firstWithMetadata": [0, 1]}, "opts": {"substitute": SERVER}},
        {"fn": P + "vC23_robust_plain", "replay": MO, "cases_quick": {"maxLen": [16]}, "cases_thorough": {"maxLen": [24]}},
        {"fn": P + "vC23_robust_md", "replay": MO, "cases_quick": {"maxLen": [24]}, "cases_thorough": {"maxLen": [32]}},
        {"fn": P + "vC23_robust_metadata", "replay": MO, "cases_quick": {"maxLen": [20]}, "cases_thorough": {"maxLen": [26]}},
        {"fn": P + "vC23_robust_response", "replay": MO, "cases_quick": {"maxLen": [24]}, "cases_thorough": {"maxLen": [32]}},
        {"fn": P + "vC23_robust_read", "replay": MO, "cases_quick": {"maxLen": [24]}, "cases_thorough": {"maxLen": [32]}},
        {"fn": P + "vC23_robust_server", "replay": MO, "cases_quick": {"maxLen": [18]}, "cases_thorough": {"maxLen": [24]}, "opts": {"substitute": SERVER, "sym_slice_cap": 32}},
        {"fn": P + "vC23_detect", "replay": MO, "cases_quick": {"nameLen": [1, 2, 3, 4], "payloadLen": [0, 1, 3]}, "cases_thorough": {"nameLen": [1, 2, 3, 4, 6], "payloadLen": [0, 1, 3, 5]}},
        {"fn": P + "vC23_detect_md", "replay": MO, "cases_quick": {"nameLen": [1, 4], "payloadLen": [0, 1, 3], "withMetadata": [0, 1]},
         "cases_thorough": {"nameLen": [1, 3, 5], "payloadLen": [0, 2, 4], "withMetadata": [0, 1]}},
        {"fn": P + "vC23_bucket", "opts": {"unwind": 66}},
        {"fn": P + "vC23_pool", "cases_quick": {"n": [0, 256, 257], "m": [300]}, "cases_thorough": {"n": [0, 1, 255, 256, 257, 512, 513, 1024], "m": [0, 1, 300, 512]}},
    ],
    "opts": {"unwind": 64, "substitute": SUBST, "sym_slice_cap": 64},
    "explanation": "internal/net: ProtoSerializer.MarshalBinary(To)/UnmarshalBinary/MarshalBinaryWithMetadata(To)/UnmarshalBinaryWithMetadata, Metadata.Set/Get/MarshalBinary/UnmarshalBinary/SetDeadline/GetDeadline/ToContext, FromContext, FindMessageType (with its sync.Map cache), readProtoFrame, Client.unmarshalProtoResponse, the whole ProtoServer.handleConn read loop incl. recover(), bucketIndex/bucketIndexExact and FramePool.Get/Put/NewFramePool are executed from their real SSA (encoding/binary too; unsafe.String/SliceData are modelled as a value snapshot with a bounds obligation). Round trip: a message (name from the protobuf identifier class, payload bytes) with and without metadata (0..2 headers, or the same key set twice) is encoded, decoded directly and through the client's format detection: same type name, same payload, same header map; the deadline is re-based exactly by the clock time between encode and decode (harness clock substituted for time.Now; a deadline that expires exactly at encode time is nudged by 1ns), i.e. within clock tolerance; two concatenated frames (one with, one without metadata, either order) are read back one by one in order by readProtoFrame+unmarshalProtoResponse and by the server loop, each with its own metadata, the frame limit being inclusive. Format detection: a frame without metadata whose name starts with a letter or '_' is refused by the metadata decoder with exactly ErrInvalidMessageLength (what makes the server fall back), a metadata frame is decoded as such and refused by the plain decoder. Robustness: UnmarshalBinary, UnmarshalBinaryWithMetadata, Metadata.UnmarshalBinary, unmarshalProtoResponse, readProtoFrame (arbitrary limit) and the server loop are run on an ARBITRARY byte string of symbolic length: every implicit panic (index, slice bounds, nil, type assertion, unsafe.String range) is an obligation; truncated/undersized/oversized input gives the documented error; success implies consistent length fields and that exactly the payload region reaches protobuf; an oversized announcement is refused before anything is allocated or read. Substituted (part of the claim): protobuf itself (proto.MessageName, MarshalOptions.Size/MarshalAppend, proto.Unmarshal, protoregistry FindMessageByName) = a message is (name, payload bytes) with Unmarshal(Marshal(m)) = m, one registered type, payloads starting 0xFF are 'corrupt'; io.ReadFull = reads from one symbolic in-memory stream (EOF / ErrUnexpectedEOF like the real one); context.WithValue = harness value context; for the server loop additionally FramePool.Get/Put = plain make (the pool's size classes are checked separately, fully symbolically) and get/putPooledReader = nil reader.",
    "bounds": {'round trip': 'name 1..4 bytes (thorough 1..6), payload 0..3 bytes (thorough 0..5), lengths enumerated per job, contents symbolic; headers: 0, 1, 2 keys of different length, or one key set twice; keys 0..3, values 0..3 bytes', 'metadata codec alone': '0..2 headers with keys and values of SYMBOLIC length <= 3 and symbolic contents (equal keys included)', 'deadline': 'any deadline and clock readings in (0, 2^62) ns, clock non-decreasing', 'arbitrary input': 'buffers of symbolic length <= 16 (plain) / 24 (metadata frame, client response, stream) / 20 (metadata) bytes; server loop <= 18 bytes quick, 24 thorough with frame limit <= 32; symbolic allocations bounded by 64 (32) elements, which the frame limit / buffer length already imply on the unchanged code', 'frame pool': 'bucketIndex for every n in [0, 2^40], bucketIndexExact for every cap >= 0 (loops unrolled 66 times); Get/Put/Get on sizes 0,256,257 / 300 (more in thorough)', 'wire limits': 'key/value length limit: one header whose key or value is 65534 or exactly 65535 bytes (all bytes symbolic) followed by an ordinary header goes through Metadata.MarshalBinary/UnmarshalBinary (entry vC23_metadata_limit); header COUNT stays far below 65535; lengths >= 65536 (uint16 truncation) are outside the statement'},
    "assumptions": ["protobuf's own wire codec is trusted (inverse pair on payload bytes)", "type names are protobuf full names (first byte a letter or '_'), as for every generated message", 'map iteration order is insertion order in the executor (Metadata.MarshalBinary iterates its map twice; the computed size does not depend on the order)', 'unsafe.String results are value snapshots: later mutation of the frame buffer through aliasing is not modelled (pooled-buffer reuse after decode is outside this check)', 'int is 64 bit'],
    "timeout_ms": {"quick": 1500000, "thorough": 1800000},
}
