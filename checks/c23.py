M = "github.com/tochemey/goakt/v4/"
P = M + "internal/net."
PB = "google.golang.org/protobuf/"
SUBST = {
    PB + "proto.MessageName": P + "vC23_messageName",
    "(" + PB + "proto.MarshalOptions).Size": P + "vC23_size",
    "(" + PB + "proto.MarshalOptions).MarshalAppend": P + "vC23_marshalAppend",
    PB + "proto.Unmarshal": P + "vC23_unmarshal",
    "(*" + PB + "reflect/protoregistry.Types).FindMessageByName": P + "vC23_findMessageByName",
    "io.ReadFull": P + "vC23_readFull",
    "context.WithValue": P + "vC23_withValue",
}
SERVER = dict(SUBST)
SERVER.update({
    "(*" + P[:-1] + ".FramePool).Get": P + "vC23_poolGet",
    "(*" + P[:-1] + ".FramePool).Put": P + "vC23_poolPut",
    P + "getPooledReader": P + "vC23_getReader",
    P + "putPooledReader": P + "vC23_putReader",
})
MO = "model-only"
CHECK = {
    "id": "C23",
    "packages": ["./internal/net"],
    "harness": ["internal/net/zz_verif_c23.go"],
    "entries": [
        {"fn": P + "vC23_roundtrip", "replay": MO, "cases": {"nameLen": [1, 2, 4], "payloadLen": [0, 1, 3]}, "cover_optional": ("frame>=12",)},
        {"fn": P + "vC23_roundtrip_md", "replay": MO, "cases": {"nameLen": [3], "payloadLen": [0, 2], "headers": [0, 1, 2], "keyLen": [0, 1, 2], "valLen": [0, 1]},
         "cover_optional": ("same-key-twice", "two-keys")},
        {"fn": P + "vC23_metadata", "replay": MO, "cases": {"headers": [0, 1, 2, 3]}, "cover_optional": ("three-keys",)},
        {"fn": P + "vC23_deadline", "replay": MO},
        {"fn": P + "vC23_concat", "replay": MO, "cases": {"nameLen": [1, 3], "payloadLen": [0, 2], "firstWithMetadata": [0, 1]}},
        {"fn": P + "vC23_server", "replay": MO, "cases": {"nameLen": [1, 3], "payloadLen": [0, 2], "firstWithMetadata": [0, 1]}, "opts": {"substitute": SERVER}},
        {"fn": P + "vC23_robust_plain", "replay": MO, "cases": {"maxLen": [16]}},
        {"fn": P + "vC23_robust_md", "replay": MO, "cases": {"maxLen": [24]}},
        {"fn": P + "vC23_robust_metadata", "replay": MO, "cases": {"maxLen": [20]}},
        {"fn": P + "vC23_robust_response", "replay": MO, "cases": {"maxLen": [24]}},
        {"fn": P + "vC23_robust_read", "replay": MO, "cases": {"maxLen": [24]}},
        {"fn": P + "vC23_robust_server", "replay": MO, "cases": {"maxLen": [24]}, "opts": {"substitute": SERVER}},
        {"fn": P + "vC23_detect", "replay": MO, "cases": {"nameLen": [1, 2, 3, 4], "payloadLen": [0, 1, 3]}},
        {"fn": P + "vC23_bucket", "opts": {"unwind": 66}},
        {"fn": P + "vC23_pool", "cases": {"n": [0, 1, 256, 257], "m": [0, 300]}},
    ],
    "opts": {"unwind": 16, "substitute": SUBST, "sym_slice_cap": 64},
    "explanation": "",
    "bounds": {},
    "assumptions": [],
}
