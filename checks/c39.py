P = "github.com/tochemey/goakt/v4/crdt."
A = "github.com/tochemey/goakt/v4/actor."
SUB = {"(*" + A + "replicatorActor).publishDelta": A + "vC39_publish"}
CHECK = {
    "id": "C39",
    "packages": ["./crdt", "./actor"],
    "harness": ["crdt/zz_verif_c39.go", "crdt/zz_verif_c38.go", "actor/zz_verif_c39.go"],
    "packages_quick": ["./crdt"],  # the replicator-level entry (./actor: +2..3 min of vdump) runs in the thorough tier only
    "harness_quick": ["crdt/zz_verif_c39.go", "crdt/zz_verif_c38.go"],
    "entries": [
        {"fn": P + "vC39_gcounter", "cases_quick": {"bUpdates": [1], "part": [0, 1]}, "cases_thorough": {"bUpdates": [2], "part": [0, 1]}},
        {"fn": P + "vC39_pncounter", "cases_quick": {"bUpdates": [1], "part": [0, 1]}, "cases_thorough": {"bUpdates": [2], "part": [0, 1]}},
        {"fn": P + "vC39_mvregister", "cases_quick": {"bUpdates": [1], "part": [0, 1]}, "cases_thorough": {"bUpdates": [2], "part": [0, 1]}},
        {"fn": P + "vC39_orset", "cases_quick": {"bUpdates": [1], "ops": [1], "part": [0, 1]}, "cases_thorough": {"bUpdates": [1], "ops": [1], "part": [0, 1]}, "opts": {"batch_fresh": True}},
        {"fn": P + "vC39_orset", "tiers": ("thorough",), "cases": {"bUpdates": [1], "ops": [2], "part": [1]}, "opts": {"batch_fresh": True}},
        {"fn": P + "vC39_orset_fullstate", "cases_quick": {"bUpdates": [1], "ops": [1], "part": [1]}, "cases_thorough": {"bUpdates": [1], "ops": [1], "part": [0, 1]}, "opts": {"batch_fresh": True}},
        {"fn": P + "vC39_orset_fullstate", "tiers": ("thorough",), "cases": {"bUpdates": [1], "ops": [2], "part": [1]}, "opts": {"batch_fresh": True}},
        {"fn": P + "vC39_ormap", "cases_quick": {"bUpdates": [1], "ops": [1], "part": [0, 1]}, "cases_thorough": {"bUpdates": [1], "ops": [1], "part": [0, 1]}, "opts": {"batch_fresh": True}},
        {"fn": P + "vC39_ormap", "tiers": ("thorough",), "cases": {"bUpdates": [1], "ops": [2], "part": [1]}, "opts": {"batch_fresh": True}},
        {"fn": P + "vC39_ormap_sets", "cases_quick": {"bUpdates": [1], "ops": [1], "part": [1]}, "cases_thorough": {"bUpdates": [1], "ops": [1], "part": [0, 1]}, "opts": {"batch_fresh": True}},
        {"fn": P + "vC39_ormap_sets", "tiers": ("thorough",), "cases": {"bUpdates": [1], "ops": [2], "part": [1]}, "opts": {"batch_fresh": True}},
        {"fn": A + "vC39_replicator", "replay": "model-only", "opts": {"substitute": SUB}, "cover_optional": ("two-increments-in-one-update",),
         "tiers": ("thorough",), "cases": {"order": list(range(36)), "twice": [0, 1]}},
    ],
    "stop": list(SUB.keys()) + ["(*" + A + "replicatorActor).coordinatedWrite", "(*" + A + "ReceiveContext).Response", "(*" + A + "ReceiveContext).Tell", "(*" + A + "PID).IsRunning"],
    "opts": {"unwind": 10, "feas_from_iter": 100, "map_range": "per_entry", "map_dedup": True},
    "timeout_ms": {"quick": 400000, "thorough": 3000000},
    "explanation": "Real code executed symbolically: Delta, ResetDelta, Merge and the mutators of crdt.GCounter, PNCounter, MVRegister, ORSet and ORMap (values: GCounter). Two originators (nodes a, b) start empty. An update = 0..2 local operations (solver's choice, any amounts / values, elements and keys from a 2-element universe) followed by the replicator's extraction step (delta := Delta(); ResetDelta(); publish if non-nil). a performs two updates, b one (quick) or two (thorough); between their updates each originator may (solver's choice) merge the other's first delta. "
                   "part 0: a third replica applies the published deltas in ANY order with one duplicate (nd+1 deliveries each of an arbitrary delta, every delta at least once), with the store rule of replicatorActor.handleDelta (key absent: the delta itself becomes the value; otherwise current.Merge(delta)); asserted: its state (value and causal metadata) equals full(a) merged with full(b). part 1: each originator applies the other's deltas in order; both must equal the same merge. "
                   "vC39_orset_fullstate ships the full state after each update instead of the delta (handleFullState / anti-entropy). vC39_ormap_sets restricts ORMap updates to Set (no Remove). "
                   "Replicator level: the crdt-package entries transcribe the store logic (actor/replicator.go handleUpdate lines 396-399, handleDelta 567-580, handleFullState 686-698; 3 lines each) in the harness. vC39_replicator (thorough tier, package actor) runs the REAL replicatorActor.handleUpdate and handleDelta on three replicatorActor values (GCounter key, crdt.Update with a Modify of one or two increments of arbitrary amounts): a's two deltas and b's delta, captured where handleUpdate hands them to publishDelta (substituted by a recorder), are delivered to the third replicator in each of the 36 orders of 4 deliveries containing all three (case split per job), asserted equal to the merge of the originators' stores; a replicator ignores its own deltas, originators converge, a tombstoned key refuses deltas. Codec and topic transport are not executed (C40 covers the codec). "
                   "Result on the unchanged tree: GCounter, PNCounter, MVRegister, ORMap-without-Remove and ORSet full-state exchange converge; ORSet deltas and ORMap with Remove do not (known findings C39-1*, C39-2*).",
    "bounds": {"originators": 2, "updates": "a: 2, b: 1 (quick) / 2 (thorough; ORSet/ORMap: 1)", "operations per update": "0..2 (GCounter, MVRegister; PNCounter: nothing, inc, dec and all four two-operation orders inc-dec, inc-inc, dec-inc, dec-dec); ORSet/ORMap: 0..1, and 0..2 for the in-order exchange between the originators (thorough)", "deliveries at the third replica": "number of deltas + 1 (any order, one duplicate)",
               "amounts": "< 2^60 each (no uint64 wrap of a per-node count)", "elements / keys": 2, "case split": "bUpdates, ops per update and the assertion group (part) are fixed per job; everything else symbolic"},
    "assumptions": ["map iteration order is insertion order (not Go's randomisation); dot lists / entries compared as sets",
                    "per-node counts do not wrap (amounts < 2^60)",
                    "by-value copy helpers of zz_verif_c38.go (vC38_*Pick) rebuild each replica state in a fresh object after every step"],
}
