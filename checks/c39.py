P = "github.com/tochemey/goakt/v4/crdt."
CHECK = {
    "id": "C39",
    "packages": ["./crdt"],
    "harness": ["crdt/zz_verif_c39.go", "crdt/zz_verif_c38.go"],
    "entries": [
        {"fn": P + "vC39_gcounter"},
        {"fn": P + "vC39_pncounter"},
        {"fn": P + "vC39_mvregister"},
    ],
    "opts": {"unwind": 10, "feas_from_iter": 100, "map_range": "per_entry", "map_dedup": True},
    "timeout_ms": {"quick": 400000, "thorough": 3000000},
    "explanation": "",
    "bounds": {},
}
