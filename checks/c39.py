P = "github.com/tochemey/goakt/v4/crdt."
CHECK = {
    "id": "C39",
    "packages": ["./crdt"],
    "harness": ["crdt/zz_verif_c39.go", "crdt/zz_verif_c38.go"],
    "entries": [
        {"fn": P + "vC39_gcounter", "cases_quick": {"bUpdates": [1], "part": [0, 1]}, "cases_thorough": {"bUpdates": [2], "part": [0, 1]}},
        {"fn": P + "vC39_pncounter", "cases_quick": {"bUpdates": [1], "part": [0, 1]}, "cases_thorough": {"bUpdates": [2], "part": [0, 1]}},
        {"fn": P + "vC39_mvregister", "cases_quick": {"bUpdates": [1], "part": [0, 1]}, "cases_thorough": {"bUpdates": [2], "part": [0, 1]}},
        {"fn": P + "vC39_orset", "cases_quick": {"bUpdates": [1], "part": [0, 1]}, "cases_thorough": {"bUpdates": [2], "part": [0, 1]}, "opts": {"batch_fresh": True}},
        {"fn": P + "vC39_orset_fullstate", "cases_quick": {"bUpdates": [1], "part": [0, 1]}, "cases_thorough": {"bUpdates": [2], "part": [0, 1]}, "opts": {"batch_fresh": True}},
        {"fn": P + "vC39_ormap", "cases_quick": {"bUpdates": [1], "part": [0, 1]}, "cases_thorough": {"bUpdates": [2], "part": [0, 1]}, "opts": {"batch_fresh": True}},
        {"fn": P + "vC39_ormap_sets", "cases_quick": {"bUpdates": [1], "part": [0, 1]}, "cases_thorough": {"bUpdates": [2], "part": [0, 1]}, "opts": {"batch_fresh": True}},
    ],
    "opts": {"unwind": 10, "feas_from_iter": 100, "map_range": "per_entry", "map_dedup": True},
    "timeout_ms": {"quick": 400000, "thorough": 3000000},
    "explanation": "",
    "bounds": {},
}
