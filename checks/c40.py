D = "github.com/tochemey/goakt/v4/internal/ddata."
K = "github.com/tochemey/goakt/v4/internal/codec."
CHECK = {
    "id": "C40",
    "packages": ["./internal/ddata", "./internal/codec"],
    "harness": ["internal/ddata/zz_verif_c40.go", "internal/codec/zz_verif_c40.go"],
    "entries": [
        {"fn": D + "vC40_counters"},
        {"fn": D + "vC40_flag_lww"},
        {"fn": D + "vC40_mvregister"},
        {"fn": D + "vC40_orset"},
        {"fn": D + "vC40_orset_merge", "cases_quick": {"shape": [0, 1, 2]}, "cases_thorough": {"shape": [0, 1, 2, 3, 4, 5, 6, 7]}, "opts": {"batch_fresh": True}},
        {"fn": D + "vC40_ormap"},
        {"fn": D + "vC40_reject"},
        {"fn": K + "vC40_key"},
    ],
    "opts": {"unwind": 10, "feas_from_iter": 100, "map_range": "per_entry", "map_dedup": True},
    "timeout_ms": {"quick": 400000, "thorough": 3000000},
    "explanation": "Real code executed symbolically: ddata.EncodeCRDT / DecodeCRDT with encode*/decode* for GCounter, PNCounter, Flag, LWWRegister, MVRegister, ORSet (encodeORSetEntries/decodeORSetEntries) and ORMap (nested EncodeCRDT/DecodeCRDT of the values), the crdt State/RawState accessors and GCounterFromState, PNCounterFromState, FlagFromState, LWWRegisterFromState, MVRegisterFromRawState, ORSetFromRawState, ORMapFromRawState constructors, the generated internalpb getters, codec.EncodeCRDTKey / DecodeCRDTKey; ORSet.Merge / LWWRegister.Merge for the merge-equivalence obligations. "
                   "Inputs are ARBITRARY raw states (a superset of the reachable ones): symbolic presence and uint64 count per node {a,b,c} for every clock / counter map, 0..3 MVRegister entries and 0..2 dots per ORSet element / ORMap key with symbolic one-byte node ids and uint64 counters, any int64 timestamp, node id string <= 3 bytes, ORMap values k1 -> GCounter and k2 -> PNCounter with symbolic presence (also values whose key has no live dot). "
                   "Asserted: encode and decode succeed, the oneof case and the decoded Go type match the input type, and the decoded value has exactly the per-node maps / entries / dots / clock / value / timestamp / node of the original (compared through the exported accessors, presence included, increments and decrements never swapped); Contains/Len/Get/Value agree; merging the decoded LWWRegister / ORSet with another arbitrary state gives what merging the original gives; unknown CRDT types, nil / untyped payloads, values and element bytes the serializer refuses are rejected with an error; CRDT keys round-trip id and type, every type maps to the wire tag of the same name, unknown wire tags are rejected. All implicit panics are obligations.",
    "bounds": {"nodes": 3, "elements / keys": 2, "dots per element": "<= 2", "MVRegister entries": "<= 3", "element / register values": "ints 0..65535 (harness serializer)", "key id": "<= 4 bytes",
               "ORSet merge equivalence": "dot counts per element fixed per job (3 shapes quick, 8 thorough), dot i of an element owned by node i, counters and clocks arbitrary"},
    "assumptions": ["element / register / key values go through a harness remote.Serializer that is an exact inverse pair on ints (the serializer contract); the real CRDTValueSerializer (protobuf / CBOR libraries) is not executed - e.g. whether CBOR returns an int as the same Go type is outside this check",
                    "protobuf wire marshalling of internalpb.CRDTData is taken as the identity (EncodeCRDT / DecodeCRDT convert between Go structs)",
                    "on a decode error DecodeCRDT returns a non-nil interface holding a nil *ORSet / *LWWRegister / ... together with the error (typed nil); callers test the error first, so only err != nil is asserted",
                    "map iteration order is insertion order (not Go's randomisation); ORSet / ORMap entries are compared per element, not by position"],
}
