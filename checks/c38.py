P = "github.com/tochemey/goakt/v4/crdt."
CHECK = {
    "id": "C38",
    "packages": ["./crdt"],
    "harness": ["crdt/zz_verif_c38.go"],
    "entries": [
        {"fn": P + "vC38_gcounter", "cases_quick": {"slots": [6]}, "cases_thorough": {"slots": [9]}},
        {"fn": P + "vC38_pncounter", "cases_quick": {"slots": [6]}, "cases_thorough": {"slots": [9]}},
        {"fn": P + "vC38_counter_value"},
        {"fn": P + "vC38_flag", "cases_quick": {"slots": [6]}, "cases_thorough": {"slots": [9]}},
        {"fn": P + "vC38_lww", "cases_quick": {"slots": [6]}, "cases_thorough": {"slots": [9]}},
        {"fn": P + "vC38_lww_anyclock", "cases_quick": {"slots": [6]}, "cases_thorough": {"slots": [9]}},
        {"fn": P + "vC38_mvregister", "cases_quick": {"slots": [6], "part": [0, 1, 2]}, "cases_thorough": {"slots": [7], "part": [0, 1, 2]}},
        {"fn": P + "vC38_orset", "cases_quick": {"slots": [4], "part": [0, 1, 2]}, "cases_thorough": {"slots": [5], "part": [0, 1, 2]}, "opts": {"batch_fresh": True}},
        {"fn": P + "vC38_ormap", "cases_quick": {"slots": [4], "part": [0, 1, 2]}, "cases_thorough": {"slots": [5], "part": [0, 1, 2]}, "opts": {"batch_fresh": True}},
    ],
    "opts": {"unwind": 10, "feas_from_iter": 100, "map_range": "per_entry", "map_dedup": True},
    "timeout_ms": {"quick": 400000, "thorough": 3000000},
    "explanation": "",
    "bounds": {},
}
