P = "github.com/tochemey/goakt/v4/crdt."
CHECK = {
    "id": "C38",
    "packages": ["./crdt"],
    "harness": ["crdt/zz_verif_c38.go"],
    "entries": [
        {"fn": P + "vC38_gcounter", "cases": {"slots": [6]}},
    ],
    "opts": {"unwind": 10},
    "explanation": "",
    "bounds": {},
}
