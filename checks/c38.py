P = "github.com/tochemey/goakt/v4/crdt."
CHECK = {
    "id": "C38",
    "packages": ["./crdt"],
    "harness": ["crdt/zz_verif_c38.go"],
    "entries": [
        {"fn": P + "vC38_gcounter", "cases": {"slots": [6]}},
        {"fn": P + "vC38_pncounter", "cases": {"slots": [6]}},
        {"fn": P + "vC38_flag", "cases": {"slots": [6]}},
        {"fn": P + "vC38_lww", "cases": {"slots": [6]}},
        {"fn": P + "vC38_lww_anyclock", "cases": {"slots": [6]}},
        {"fn": P + "vC38_mvregister", "cases": {"slots": [6]}},
        {"fn": P + "vC38_orset", "cases": {"slots": [6]}},
        {"fn": P + "vC38_ormap", "cases": {"slots": [6]}},
    ],
    "opts": {"unwind": 10, "feas_from_iter": 100, "map_range": "per_entry", "map_dedup": True},
    "explanation": "",
    "bounds": {},
}
