P = "github.com/tochemey/goakt/v4/crdt."
CHECK = {
    "id": "C38",
    "packages": ["./crdt"],
    "harness": ["crdt/zz_verif_c38.go"],
    "entries": [
        {"fn": P + "vC38_gcounter", "cases_quick": {"slots": [6]}, "cases_thorough": {"slots": [9]}},
        {"fn": P + "vC38_pncounter", "cases_quick": {"slots": [6]}, "cases_thorough": {"slots": [9]}},
        {"fn": P + "vC38_counter_value"},
        {"fn": P + "vC38_flag", "cases_quick": {"slots": [6]}, "cases_thorough": {"slots": [9]}},
        {"fn": P + "vC38_lww", "cases_quick": {"slots": [6]}, "cases_thorough": {"slots": [9]}},
        {"fn": P + "vC38_lww_anyclock", "cases_quick": {"slots": [6]}, "cases_thorough": {"slots": [9]}},
        {"fn": P + "vC38_mvregister", "cases_quick": {"slots": [6], "part": [0, 1, 2]}, "cases_thorough": {"slots": [7], "part": [0, 1, 2]}},
        {"fn": P + "vC38_orset", "cases_quick": {"slots": [5], "part": [0, 1, 2]}, "cases_thorough": {"slots": [6], "part": [0, 1, 2]}, "opts": {"batch_fresh": True}},
        {"fn": P + "vC38_ormap", "cases_quick": {"slots": [4], "part": [0, 1, 2]}, "cases_thorough": {"slots": [5], "part": [1, 2]}, "opts": {"batch_fresh": True, "unwind": 20}},
        # part 0 at 5 slots decides (unsat) but needs ~23 min on an idle machine: registered at 4 slots
        {"fn": P + "vC38_ormap", "tiers": ("thorough",), "cases": {"slots": [4], "part": [0]}, "opts": {"batch_fresh": True, "unwind": 20}},
    ],
    "opts": {"unwind": 10, "feas_from_iter": 100, "map_range": "per_entry", "map_dedup": True},
    "timeout_ms": {"quick": 400000, "thorough": 3000000},
    "explanation": "Real code executed symbolically: Merge, Clone and the mutators (Increment/Decrement/Enable/Set/Add/Remove) plus the accessors (Value/Enabled/Values/Contains/Len/Elements/Get) of crdt.GCounter, PNCounter, Flag, LWWRegister, MVRegister, ORSet (isDominated, containsDot, appendDotUnique, cloneDots, shallowCopy, cloneInternal, orSetDelta.clone) and ORMap (values: GCounter), maps.Copy from its real SSA. "
                   "States are only REACHABLE ones: 3 replicas with node ids a,b,c start empty; slot k belongs to replica k%3, which (solver's choice per slot) does nothing, performs one local mutation (any uint64 amount / any int64 timestamp / any int value / element or key from a 2-element universe) or merges the current state of one of the other two replicas. Every candidate operation of a slot is executed and the chosen result is copied by value into a fresh object by a harness helper (vC38_*Pick). "
                   "On the three final states x,y,z the harness asserts, against reference definitions written in the harness (per-node maximum; lexicographic (timestamp,node) order; lattice order of (dot store, causal context); set equality of dot lists): commutativity, associativity, idempotence, x <= x+y (nothing already present is lost unless the other side observed and removed/superseded it), well-formedness of reachable and merged states, inputs unchanged after Merge/Clone/mutators (deep snapshots), Clone shares no storage (mutating the clone's maps and slices). Counter Value() is checked to be the sum over the per-node state for ARBITRARY states (vC38_counter_value), so the per-node-state laws carry over to the value.",
    "bounds": {"replicas": 3, "element / key universe": 2, "quick": {"slots (operations incl. merges, round-robin over replicas)": {"GCounter, PNCounter, Flag, LWWRegister, MVRegister": 6, "ORSet": 5, "ORMap": 4}},
               "thorough": {"slots": {"GCounter, PNCounter, Flag, LWWRegister": 9, "MVRegister": 7, "ORSet": 6, "ORMap": "5 (associativity, idempotence, clone) / 4 (commutativity, upper bound; 5 slots also ran clean once, 23 min)"}},
               "amounts / timestamps / values": "full uint64 / int64 / int", "dots per element": "<= 8 (symbolic make cap)", "ORMap values": "GCounter only",
               "case split": "number of slots and the group of assertions (part) are fixed per job; operations, operands and merge sources are symbolic"},
    "assumptions": ["map iteration order is insertion order (Go's randomisation is not modelled); equality of dot lists / entries is order-insensitive",
                    "vC38_lww assumes every node stamps its successive writes with strictly increasing timestamps; vC38_lww_anyclock drops that assumption (known finding C38-1)",
                    "engine options map_range=per_entry, map_dedup, feas_from_iter=100 (loops end syntactically; unwinding assertions remain obligations), batch_fresh for ORSet/ORMap",
                    "pending-delta bookkeeping (GCounter.delta, dirty flags, ORSet.delta) is carried through the histories but is not part of the compared state (C39 covers deltas)"],
}
