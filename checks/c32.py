P = "github.com/tochemey/goakt/v4/actor."
CHECK = {
    "id": "C32",
    "packages": ["./actor"],
    "harness": ["actor/zz_verif_c32.go"],
    "entries": [
        {"fn": P + "vC32_actors2", "tiers": ("quick",)},
        {"fn": P + "vC32_actors3", "tiers": ("thorough",)},
        {"fn": P + "vC32_grains"},
        {"fn": P + "vC32_relocatableGrains"},
    ],
    "opts": {"unwind": 8},
    "explanation": "allocateActors, eligibleForRole, allocateGrains (with chunk.Chunkify) and relocatableGrains executed symbolically over symbolic roles, role sets, singleton flags and base loads; exact-cover, eligibility, least-load and remainder rules asserted per item.",
    "bounds": {"actors": "<= 2 (quick) / <= 3 (thorough)", "peers": "<= 2 (+ leader)", "roles": "{'', a, b}", "grains": "<= 5, targets <= 3", "loads": "[0, 10^6)"},
    "assumptions": ["map iteration order is insertion order (least-load clause checked with a single actor so order is irrelevant)"],
}
