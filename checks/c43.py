P = "github.com/tochemey/goakt/v4/actor."
SUB = {
    "(*" + P + "producerController).tell": P + "vC43_ptell",
    "(*" + P + "consumerController).tell": P + "vC43_ctell",
    "(*" + P + "ReceiveContext).Shutdown": P + "vRD_shutdown",
    "(*" + P + "ReceiveContext).Watch": P + "vRD_watch",
    "(*" + P + "ReceiveContext).UnWatch": P + "vRD_unwatch",
    "(*" + P + "actorSystem).getRemoting": P + "vRD_getRemoting",
    "(*" + P + "actorSystem).resolveReliableCompanion": P + "vRD_resolveCompanion",
    "context.WithTimeout": P + "vRD_withTimeout",
    "slices.overlaps[*github.com/tochemey/goakt/v4/internal/commands.SequencedMessage]": P + "vRD_noOverlap",
}
CHECK = {
    "id": "C43",
    "packages": ["./actor", "./internal/commands"],
    "harness": ["actor/zz_verif_rd.go", "actor/zz_verif_c43.go", "internal/commands/zz_verif_rd.go"],
    "entries": [
        {"fn": P + "vC43_producer", "replay": "model-only", "opts": {"feasibility": True, "unwind": 8}},
        {"fn": P + "vC43_consumer", "replay": "model-only", "cases_quick": {"kind": [0, 1, 2, 3, 4], "bufLen": [0, 1, 2], "spareCap": [1], "seqBits": [16]},
         "cases_thorough": {"kind": [0, 1, 2, 3, 4], "bufLen": [0, 1, 2, 3], "spareCap": [0, 1], "seqBits": [61]},
         "cover_optional": ("demand-granted", "buffered", "buffer-full")},
    ],
    "opts": {"unwind": 8, "substitute": SUB, "feasibility": False, "batch_fresh": True, "reach_fresh": True, "equalfold_ascii": True},
    "stop": [k for k in SUB.keys() if k.startswith("(*" + P)],
    "timeout_ms": {"quick": 400000, "thorough": 1800000},
    "explanation": "TODO",
    "bounds": {},
}
