P = "github.com/tochemey/goakt/v4/actor."
SUB = {
    "(*" + P + "producerController).tell": P + "vC43_ptell",
    "(*" + P + "consumerController).tell": P + "vC43_ctell",
    "(*" + P + "ReceiveContext).Shutdown": P + "vRD_shutdown",
    "(*" + P + "ReceiveContext).Watch": P + "vRD_watch",
    "(*" + P + "ReceiveContext).UnWatch": P + "vRD_unwatch",
    "(*" + P + "actorSystem).getRemoting": P + "vRD_getRemoting",
    "(*" + P + "actorSystem).resolveReliableCompanion": P + "vRD_resolveCompanion",
    "context.WithTimeout": P + "vRD_withTimeout",
    "slices.overlaps[*github.com/tochemey/goakt/v4/internal/commands.SequencedMessage]": P + "vRD_noOverlap",
}
CHECK = {
    "id": "C43",
    "packages": ["./actor", "./internal/commands"],
    "harness": ["actor/zz_verif_rd.go", "actor/zz_verif_c43.go", "internal/commands/zz_verif_rd.go"],
    "entries": [
        {"fn": P + "vC43_producer", "replay": "model-only", "opts": {"feasibility": True, "unwind": 8}},
        {"fn": P + "vC43_consumer", "replay": "model-only", "cases_quick": {"kind": [0, 1, 2, 3, 4], "bufLen": [0, 1, 2, 3], "spareCap": [1], "seqBits": [61]},
         "cases_thorough": {"kind": [0, 1, 2, 3, 4], "bufLen": [0, 1, 2, 3, 4], "spareCap": [0, 1], "seqBits": [61]},
         "cover_optional": ("demand-granted", "buffered", "buffer-full"),
         # with a full buffer / in message kinds that never grant demand the grant assertion has no instance
         "may_be_unreachable": ("demand is only ever granted as confirmedSeq+window", "every Request grants exactly confirmedSeq+window",
                                "a Request carries the current confirmation watermark")},
    ],
    "opts": {"unwind": 8, "substitute": SUB, "feasibility": False, "batch_fresh": True, "reach_fresh": True, "equalfold_ascii": True},
    "stop": [k for k in SUB.keys() if k.startswith("(*" + P)],
    "timeout_ms": {"quick": 900000, "thorough": 2400000},
    "explanation": "One handler step from an arbitrary state, volatile mode (no durable queue). "
                   "vC43_producer: the real (*producerController).Receive (handleRegisterConsumer, handleRequest, handleAck, handleProduced, handleStoredAck, handleTick, handleTerminated, fromRegisteredConsumer, advanceConfirmed, sendConfirmation, resendUnconfirmed, allowNextRequest, sendRequestNext, startStore, completeStore, replyStored, startAccept, completeAccept, emitSequenced, terminate and the protocol constructors) runs for one arbitrary message "
                   "(any of the 7 kinds, any sender among registered consumer controller / producer / stranger, current or stale session, nonce, token, any int64 confirmation and demand values the commands' validate() accepts) from an arbitrary state with 0 <= confirmedSeq <= currentSeq, unconfirmed = the 0..3 contiguous sequences (confirmedSeq, currentSeq], any demandUpTo, handshake Idle / Credit / StoredAck, registered or not. "
                   "Asserted at the moment of every emission (the controller's tell helper is substituted by the checker): seq <= demandUpTo, 1 <= seq <= currentSeq, destination = the registered consumer controller. After the step: demandUpTo changed only to the RequestUpToSeq of a Request authenticated for the current registration/session/nonce with confirmed <= currentSeq and upTo in [confirmed, confirmed+MaxReliableFlowControlWindow], or was reset to currentSeq by a (de)registration; a verified registration by a new controller OR by the same controller under a fresh nonce always starts a new generation (demandUpTo = currentSeq, controller and nonce recorded), while the idempotent same-controller/same-nonce ping keeps the demand; "
                   "credit (RequestNext) is opened only while currentSeq < demandUpTo; the representation invariant is preserved; confirmedSeq follows authenticated confirmations only. "
                   "vC43_consumer: the real (*consumerController).Receive (handleRegistrationAck, handleSequencedMessage, handleConfirmed, handleTick, handleTerminated, register, deliver/deliverFrame, bufferMessage, drain, assemble, scanChunkRun, purgeBuffer, gapOpen, chunkRunComplete, refreshRunLast, batchConfirmation, sendRequest, sendGapRequest, solicitGapRequest, sendAck, failWedgedChunkRun) runs for one arbitrary message (whole or chunked SequencedMessage with any sequence and flags, RegistrationAck, Confirmed, tick, Terminated; any sender) "
                   "from an arbitrary state satisfying I_c (expectedSeq = confirmedSeq+1, requestUpToSeq <= confirmedSeq+window, buffer strictly ascending within [expectedSeq, requestUpToSeq], len(buffer) <= window; window 1..4, buffer entries whole or chunk with any flags, in-flight delivery or not). Asserted: len(buffer) <= window, I_c preserved, every Request grants exactly confirmedSeq+window and carries the current watermark. "
                   "Together: the producer never emits beyond the highest sequence granted by an authenticated Request, a grant is always confirmedSeq+window, and whatever arrives the consumer keeps at most window messages, all within its grant. "
                   "Substituted (environment): the controllers' tell helpers (recorders carrying the emission-time assertions), (*ReceiveContext).Shutdown/Watch/UnWatch, (*actorSystem).getRemoting (identity serializer on byte frames), (*actorSystem).resolveReliableCompanion (arbitrary outcome), context.WithTimeout, slices.overlaps (unsafe pointer arithmetic inside slices.Insert; the inserted value is always fresh). PIDs carry one-letter path strings; PID.Equals / Path.Equals run for real (strings.EqualFold by the ASCII model).",
    "bounds": {"producer": "unconfirmed 0..3, confirmedSeq < 2^62, demand/confirmation values any int64", "consumer quick": "window 1..4, buffer 0..3 (spare capacity), confirmedSeq < 2^61, incoming seq any int64",
               "consumer thorough": "buffer 0..4, with and without spare slice capacity", "payloads": "1 byte", "durable queue, chunked emission on the producer side": "not encoded (queue == nil, maxChunkBytes == 0)"},
    "assumptions": ["strings.EqualFold modelled for ASCII strings only", "strings.TrimSpace of a symbolic string trims ASCII white space only", "the consumer endpoint's window is the one validated by PreStart (1..MaxReliableFlowControlWindow); 1..4 explored"],
}
