P = "github.com/tochemey/goakt/v4/actor."
M = lambda n: "(*" + P + "PID)." + n
SUB = {
    M("unregisterPassivation"): P + "vC06_noop", M("unregisterMetrics"): P + "vC06_noop", M("cancelInFlightRequests"): P + "vC06_noopErr",
    M("freeWatchees"): P + "vC06_nilErrCtx", M("freeChildren"): P + "vC06_nilErrCtx", M("freeWatchers"): P + "vC06_noopCtx",
    M("Name"): P + "vC06_name", M("Dependencies"): P + "vC06_deps", P + "newContext": P + "vC06_newContext",
    M("markActivity"): P + "vC06_markActivity", M("recordProcessedMessage"): P + "vC06_noop", M("submitSupervision"): P + "vC06_submitSupervision",
    "(*" + P + "dispatcher).schedule": P + "vC06_schedule", "(*" + P + "worker).reschedule": P + "vC06_reschedule",
}
import importlib.util, os
_spec = importlib.util.spec_from_file_location("c01", os.path.join(os.path.dirname(os.path.abspath(__file__)), "c01.py"))
_c01 = importlib.util.module_from_spec(_spec)
_spec.loader.exec_module(_c01)
def _c01_entry(short):
    e = dict([x for x in _c01.CHECK["entries"] if x["fn"].endswith("." + short)][0])
    e["opts"] = dict(_c01.CHECK["opts"], **e.get("opts", {}))
    return e
CHECK = {
    "id": "C06",
    "packages": ["./actor"],
    "harness": ["actor/zz_verif_c06.go", "actor/zz_verif_c01.go"],
    "replace": [{"file": "actor/pools.go", "old": "const contextPoolSize = 8192", "new": "const contextPoolSize = 2"}],
    "entries": [
        {"fn": P + "vC06_twoShutdowns", "replay": "model-only"},
        {"fn": P + "vC06_passivateVsShutdown", "replay": "model-only"},
        {"fn": P + "vC06_poisonPill", "replay": "model-only"},
        {"fn": P + "vC06_shutdownVsTurn", "replay": "model-only"},
        # restart path: PreStart of the new incarnation (init) vs a Receive still in progress on a worker (the C01 restart scenarios)
        _c01_entry("vC01_restart"),
        _c01_entry("vC01_restartSuspended"),
    ],
    "opts_thorough": {"rounds": 5},
    "opts": {"rounds": 3, "unwind": 4, "unwind_mode": "assume", "feasibility": False, "substitute": SUB,
             "loop_bounds": {M("setState"): 3, M("compareAndSwapState"): 3}},
    "stop": list(SUB.keys()),
    "timeout_ms": {"quick": 400000, "thorough": 1800000},
    "explanation": "PID.Shutdown, tryPassivation, doStop (with internal/chain), reset, the state flag helpers, doReceive, runTurn, finishOrReclaim and the real dispatchOne/handleReceived (PoisonPill arm included) under solver-chosen interleavings; the actor's Receive/PostStop are ghost recorders; watcher/children/metrics/passivation-manager calls are substituted by no-ops.",
    "bounds": {"threads": "<= 3 (stoppers / passivation / sender + workers)", "rounds": 3, "messages": "<= 3"},
}
