import importlib.util, os
_spec = importlib.util.spec_from_file_location("c18", os.path.join(os.path.dirname(os.path.abspath(__file__)), "c18.py"))
_c18 = importlib.util.module_from_spec(_spec)
_spec.loader.exec_module(_c18)
def _c18_entry(short, tiers=None):
    e = dict([x for x in _c18.CHECK["entries"] if x["fn"].endswith("." + short)][0])
    e["opts"] = dict(_c18.CHECK["opts"], **e.get("opts", {}))
    if tiers:
        e["tiers"] = tiers
    return e
P = "github.com/tochemey/goakt/v4/internal/remoteclient."
SUB = {"(*github.com/tochemey/goakt/v4/internal/net.Client).SendProto": P + "vC27_send"}
CHECK = {
    "id": "C27",
    "packages": ["./internal/remoteclient", "./actor"],
    "harness": ["internal/remoteclient/zz_verif_c27.go", "actor/zz_verif_c18.go"],
    "replace": _c18.CHECK["replace"],
    "entries": [
        {"fn": P + "vC27_order", "replay": "model-only", "cover_optional": ("dead-lettered",)},
        {"fn": P + "vC27_close", "replay": "model-only"},
        {"fn": P + "vC27_fullQueue", "replay": "model-only", "cover_optional": ("second-accepted",)},
        {"fn": P + "vC27_oneCoalescer", "replay": "model-only",
         "opts": {"substitute": dict(SUB, **{P + "newCoalescer": P + "vC27_newCoalescer", "(*" + P + "client).NetClient": P + "vC27_netClient"})}},
        # the error handler of the coalescer on the sending node (actor/remote_server.go enqueueCoalescedFailure + drainCoalescedFailures):
        # every message of a failed batch becomes exactly one dead letter, in order (the C18 scenario)
        _c18_entry("vC18_batch"),
    ],
    "opts_thorough": {"rounds": 5},
    "opts": {"rounds": 3, "unwind": 4, "unwind_mode": "assume", "feasibility": False, "substitute": SUB},
    "stop": _c18.CHECK["stop"] + list(SUB.keys()) + [P + "newCoalescer", "(*" + P + "client).NetClient"],
    "timeout_ms": {"quick": 600000, "thorough": 1800000},
    "explanation": "coalescer.submit/run (flush, drainReady)/close under solver-chosen interleavings of a caller, the writer goroutine and a closer; the transport (net.Client.SendProto) is substituted by a recorder that delivers or fails whole batches; errHandler records dead letters.",
    "bounds": {"threads": "caller (2 messages), writer, closer", "rounds": 3, "maxBatch": "2 and 1"},
}
CHECK["explanation"] += " Error handler on the sending node: actorSystem.enqueueCoalescedFailure + drainCoalescedFailures are executed through the C18 scenario vC18_batch (a failed batch of n = 0..3 remote tells yields n dead letters, in order, with the original message/receiver/sender and the cause)."
