P = "github.com/tochemey/goakt/v4/internal/remoteclient."
SUB = {"(*github.com/tochemey/goakt/v4/internal/net.Client).SendProto": P + "vC27_send"}
CHECK = {
    "id": "C27",
    "packages": ["./internal/remoteclient"],
    "harness": ["internal/remoteclient/zz_verif_c27.go"],
    "entries": [
        {"fn": P + "vC27_order", "replay": "model-only", "cover_optional": ("dead-lettered",)},
        {"fn": P + "vC27_close", "replay": "model-only"},
        {"fn": P + "vC27_fullQueue", "replay": "model-only", "cover_optional": ("second-accepted",)},
        {"fn": P + "vC27_oneCoalescer", "replay": "model-only",
         "opts": {"substitute": dict(SUB, **{P + "newCoalescer": P + "vC27_newCoalescer", "(*" + P + "client).NetClient": P + "vC27_netClient"})}},
    ],
    "opts": {"rounds": 3, "unwind": 4, "unwind_mode": "assume", "feasibility": False, "substitute": SUB},
    "stop": list(SUB.keys()) + [P + "newCoalescer", "(*" + P + "client).NetClient"],
    "timeout_ms": {"quick": 600000, "thorough": 1800000},
    "explanation": "coalescer.submit/run (flush, drainReady)/close under solver-chosen interleavings of a caller, the writer goroutine and a closer; the transport (net.Client.SendProto) is substituted by a recorder that delivers or fails whole batches; errHandler records dead letters.",
    "bounds": {"threads": "caller (2 messages), writer, closer", "rounds": 3, "maxBatch": "2 and 1"},
}
