P = "github.com/tochemey/goakt/v4/internal/remoteclient."
SUB = {"(*github.com/tochemey/goakt/v4/internal/net.Client).SendProto": P + "vC27_send"}
CHECK = {
    "id": "C27",
    "packages": ["./internal/remoteclient"],
    "harness": ["internal/remoteclient/zz_verif_c27.go"],
    "entries": [
        {"fn": P + "vC27_order", "replay": "model-only", "cover_optional": ("dead-lettered",)},
        {"fn": P + "vC27_close", "replay": "model-only"},
    ],
    "opts": {"rounds": 3, "unwind": 4, "unwind_mode": "assume", "feasibility": False, "substitute": SUB},
    "stop": list(SUB.keys()),
    "explanation": "coalescer.submit/run (flush, drainReady)/close under solver-chosen interleavings of a caller, the writer goroutine and a closer; the transport (net.Client.SendProto) is substituted by a recorder that delivers or fails whole batches; errHandler records dead letters.",
    "bounds": {"threads": "caller (2 messages), writer, closer", "rounds": 3, "maxBatch": "2 and 1"},
}
