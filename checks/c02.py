import importlib.util, os
_spec = importlib.util.spec_from_file_location("c04", os.path.join(os.path.dirname(os.path.abspath(__file__)), "c04.py"))
_m = importlib.util.module_from_spec(_spec)
_spec.loader.exec_module(_m)
P = "github.com/tochemey/goakt/v4/actor."
SUB = {"(*" + P + "PID).dispatchOne": P + "vC01_dispatchOne",
       "(*" + P + "dispatcher).schedule": P + "vC01_schedule",
       "(*" + P + "worker).reschedule": P + "vC01_reschedule"}
_own = {"substitute": SUB, "feasibility": True, "unwind": 4}
CHECK = dict(_m.CHECK)
CHECK["id"] = "C02"
CHECK["harness"] = ["actor/zz_verif_c01.go", "actor/zz_verif_c04.go"]
CHECK["entries"] = [
    {"fn": P + "vC02_quiescence", "replay": "model-only", "cover_optional": ("pending-at-quiescence",), "opts": _own},
    {"fn": P + "vC02_throughput1", "replay": "model-only", "cover_optional": ("pending-at-quiescence",), "opts": _own},
] + list(_m.CHECK["entries"])
CHECK["stop"] = list(SUB.keys())
CHECK["explanation"] = ("PID.doReceive, runTurn, finishOrReclaim, dispatchState.*, real UnboundedMailbox (Enqueue/Dequeue/IsEmpty, context pool) under solver-chosen "
                        "interleavings; handler substituted by a ghost recorder; ready queue abstracted to a token channel. Asserts at-most-once handling, per-sender "
                        "order, and at quiescence: pending message => actor scheduled (no lost wake-up). The other mailbox implementations named by the property "
                        "(fair, segmented, non-blocking bounded, bounded priority, priority intake) are covered by the mailbox scenario of C04 (2 producers, "
                        "1 consumer): every accepted message is dequeued exactly once. Stash: C13.")
CHECK["bounds"] = {"dispatch": "senders 2+1 messages / 2 messages, 2 workers (1-2 turns), 3 rounds, throughput 2 and 1, context pool 2", "mailboxes": _m.CHECK["bounds"]}
# stash/unstash part of the quantifier: messages held by the reentrancy stash while a blocking request is outstanding are handed
# to the handler exactly once afterwards (the turn-level scenario of C16; dispatchOne is stopped in this check, so the scenario
# runs with C16's routing mirror vC16_dispatchOne: stash gate -> real stash / handleAsyncResponse / handleReceived)
_spec16 = importlib.util.spec_from_file_location("c16", os.path.join(os.path.dirname(os.path.abspath(__file__)), "c16.py"))
_c16 = importlib.util.module_from_spec(_spec16)
_spec16.loader.exec_module(_c16)
_e16 = dict([x for x in _c16.CHECK["entries"] if x["fn"].endswith(".vC16_mixedModes")][0])
_e16["opts"] = dict(_e16["opts"], unwind_mode="assert", feasibility=True,
                    substitute=dict(_c16.TURN_SUB, **{"(*" + P + "PID).dispatchOne": P + "vC16_dispatchOne"}))
CHECK["entries"] = CHECK["entries"] + [_e16]
CHECK["harness"] = CHECK["harness"] + ["actor/zz_verif_c16.go"]
CHECK["explanation"] += (" Reentrancy stash: C16's vC16_mixedModes (real doReceive/runTurn/enableReentrancyStash/stash/unstashAll/handleAsyncResponse/"
                         "completeRequest/deregisterRequestState on one actor with two overlapping requests of every mode combination and every arrival "
                         "order of two user messages and the two outcomes): every accepted message is handled exactly once once no blocking request is outstanding.")
