P = "github.com/tochemey/goakt/v4/actor."
SUB = {"(*" + P + "PID).dispatchOne": P + "vC01_dispatchOne",
       "(*" + P + "dispatcher).schedule": P + "vC01_schedule",
       "(*" + P + "worker).reschedule": P + "vC01_reschedule"}
CHECK = {
    "id": "C02",
    "packages": ["./actor"],
    "harness": ["actor/zz_verif_c01.go"],
    "replace": [{"file": "actor/pools.go", "old": "const contextPoolSize = 8192", "new": "const contextPoolSize = 2"}],
    "entries": [
        {"fn": P + "vC02_quiescence", "replay": "model-only", "cover_optional": ("pending-at-quiescence",)},
        {"fn": P + "vC02_throughput1", "replay": "model-only", "cover_optional": ("pending-at-quiescence",)},
    ],
    "opts": {"rounds": 3, "unwind": 4, "unwind_mode": "assume", "substitute": SUB},
    "stop": list(SUB.keys()),
    "explanation": "PID.doReceive, runTurn, finishOrReclaim, dispatchState.*, real UnboundedMailbox (Enqueue/Dequeue/IsEmpty, context pool) under solver-chosen interleavings; handler substituted by a ghost recorder; ready queue abstracted to a token channel. Asserts at-most-once handling, per-sender order, and at quiescence: pending message => actor scheduled (no lost wake-up).",
    "bounds": {"threads": "senders 2+1 messages / 2 messages, 2 workers (1-2 turns)", "rounds": 3, "throughput": "2 and 1", "context pool": 2},
}
