P = "github.com/tochemey/goakt/v4/actor."
M = lambda n: "(*" + P + "PID)." + n
A = lambda n: "(*" + P + "actorSystem)." + n
EG = "golang.org/x/sync/errgroup."

SUB_GATE = {M("Tell"): P + "vC17_tellRec", "(*" + P + "dispatcher).schedule": P + "vC17_scheduleCount"}
SUB_AFTER = {"(*" + P + "dispatcher).schedule": P + "vC17_scheduleCount", M("unregisterPassivation"): P + "vC17_noopPID", M("unregisterMetrics"): P + "vC17_noopPID",
             M("cancelInFlightRequests"): P + "vC17_noopErr", M("submitSupervision"): P + "vC17_submitSupervision",
             M("Equals"): P + "vT_equals"}
SUB_SEQ = {
    M("Shutdown"): P + "vC17_seqShutdown", A("poisonAllGrains"): P + "vC17_seqPoison",
    "(*" + P + "passivationManager).Stop": P + "vC17_seqPassivatorStop", "(*" + P + "scheduler).Stop": P + "vC17_seqSchedulerStop",
    A("runShutdownHooks"): P + "vC17_seqHooks", A("stopDataCenterLeaderWatch"): P + "vC17_seqDCWatch", A("stopDataCenterController"): P + "vC17_seqDCController",
    A("preShutdown"): P + "vC17_seqPreShutdown", A("shutdownCluster"): P + "vC17_seqCluster", A("shutdownRemoting"): P + "vC17_seqRemoting",
    A("localActors"): P + "vC17_seqLocalActors", A("reset"): P + "vC17_seqReset", "(*" + P + "dispatcher).signalStop": P + "vC17_seqSignalStop",
    "(*" + P + "tree).deleteNode": P + "vC17_seqDeleteNode",
    "go.uber.org/multierr.Combine": P + "vC17_combine", "go.uber.org/multierr.AppendInto": P + "vC17_appendInto",
}
# failing step of vC17_sequence (see the vC17ev* constants): 0 none, 3 hooks, 5 data-center controller, 6 peer-state snapshot, 7 user guardian, 8 singleton manager,
# 9 relocator, 10 dead letter, 11 death watch, 12 grains, 13 topic actor, 14 NoSender, 15 system guardian, 16 root guardian, 19 cluster, 20 remoting
SEQ_FAIL = [0, 3, 5, 6, 7, 8, 9, 10, 11, 12, 13, 14, 15, 16, 19, 20]
SUB_TREE = {M("unregisterPassivation"): P + "vC17_noopPID", M("unregisterMetrics"): P + "vC17_noopPID", M("cancelInFlightRequests"): P + "vC17_noopErr",
            M("Tell"): P + "vC17_treeTell", M("Equals"): P + "vT_equals",
            EG + "WithContext": P + "vC17_egWithContext", "(*" + EG + "Group).Go": P + "vC17_egGo", "(*" + EG + "Group).Wait": P + "vC17_egWait"}
T = lambda n: "(*" + P + "tree)." + n
SUB_TREE_C = dict(SUB_TREE)
SUB_TREE_C.update({T("children"): P + "vC17_children", T("node"): P + "vC17_node", T("removeDescendant"): P + "vC17_removeDescendant", M("UnWatch"): P + "vC17_unwatch",
                   M("freeWatchees"): P + "vC17_nilErrCtx", M("freeWatchers"): P + "vC17_noopCtx"})
CONC = {"rounds": 3, "unwind": 8, "unwind_mode": "assume", "feasibility": False, "map_range": "per_entry", "map_dedup": True,
        "loop_bounds": {M("setState"): 3, M("compareAndSwapState"): 3}}
G = lambda n: "(*" + P + "grainPID)." + n
SUB_GRAIN = {"(*" + P + "dispatcher).schedule": P + "vC17_gSchedule", "(*" + P + "worker).reschedule": P + "vC17_gReschedule", G("recovery"): P + "vC17_gRecovery"}
SUB_LATE = dict(SUB_GRAIN)
SUB_LATE.update({A("localSend"): P + "vC17_localSend", G("activate"): P + "vC17_gActivate", "(*" + P + "GrainIdentity).Validate": P + "vC17_validateID"})
MO = {"replay": "model-only"}
# order assertions of vC17_sequence that sit behind "this step ran": not reached in the cases where an earlier guardian failed
SEQ_ORDER_ASSERTS = ("the user guardian is stopped before the dead-letter actor", "the user guardian is stopped before the death watch",
                     "grains are deactivated after the user actors were stopped",
                     "the system guardian is stopped after the user guardian, the dead-letter actor, the death watch, the grains and NoSender",
                     "the root guardian is stopped last of the guardians", "cluster / remoting go down after the last guardian")
CHECK = {
    "id": "C17",
    "packages": ["./actor"],
    "harness": ["actor/zz_verif_c17.go", "actor/zz_verif_c10.go"],
    "replace": [{"file": "actor/pools.go", "old": "const contextPoolSize = 8192", "new": "const contextPoolSize = 2"},
                {"file": "actor/grain_context.go", "old": "var grainContextCh = make(chan *GrainContext, 512)", "new": "var grainContextCh = make(chan *GrainContext, 2)"}],
    "entries": [
        dict(MO, fn=P + "vC17_gate", cases={"kind": list(range(11))}, opts={"substitute": SUB_GATE, "equalfold_ascii": True},
             cover_optional=("rejected", "control-accepted", "system-message-passes-gate")),
        dict(MO, fn=P + "vC17_afterStop", opts={"substitute": SUB_AFTER, "map_range": "per_entry", "map_dedup": True, "select_precise": True}),
        dict(MO, fn=P + "vC17_systemActor", opts={"substitute": SUB_AFTER, "map_range": "per_entry", "map_dedup": True}),
        dict(MO, fn=P + "vC17_sequence", cases={"failingStep": SEQ_FAIL}, opts={"substitute": SUB_SEQ},
             cover_optional=("clean", "non-guardian-step-failed", "guardian-failed", "user-guardian-failed"),
             may_be_unreachable=SEQ_ORDER_ASSERTS),
        dict(MO, fn=P + "vC17_treeTwoStops", cases_quick={"size": [2]}, cases_thorough={"size": [2, 3, 4]}, opts=dict(CONC, substitute=SUB_TREE_C), opts_thorough={"rounds": 4}),
        dict(MO, fn=P + "vC17_treeChildStop", cases_quick={"size": [2]}, cases_thorough={"size": [2, 3, 4]}, opts=dict(CONC, substitute=SUB_TREE_C), opts_thorough={"rounds": 4}),
        dict(MO, fn=P + "vC17_treeFailing", cases_quick={"size": [3]}, cases_thorough={"size": [2, 3, 4]},
             opts={"substitute": SUB_TREE, "map_range": "per_entry", "map_dedup": True, "recursion": 5}, cover_optional=("descendant-failed",)),
        dict(MO, fn=P + "vC17_grains", cases_quick={"grains": [1], "traffic": [0, 1]}, cases_thorough={"grains": [1, 2], "traffic": [0, 1, 2]},
             opts={"rounds": 3, "unwind": 6, "unwind_mode": "assume", "feasibility": False, "substitute": SUB_GRAIN},
             cover_optional=("teardown-with-passivation-pill", "teardown-with-message-handled"),
             may_be_unreachable=("OnReceive of a grain never runs while its OnDeactivate is in progress",)),
        dict(MO, fn=P + "vC17_grainLateSend", cases={"active": [0, 1]},
             opts={"rounds": 3, "unwind": 6, "unwind_mode": "assume", "feasibility": False, "substitute": SUB_LATE},
             cover_optional=("send-refused", "send-handled")),
    ],
    "opts": {"unwind": 40},
    # only functions that are substituted in every entry that reaches them (a stopped function has no body in the IR)
    "stop": [A("runShutdownHooks"), A("stopDataCenterLeaderWatch"), A("stopDataCenterController"), A("preShutdown"), A("shutdownCluster"), A("shutdownRemoting"),
             A("localActors"), "(*" + P + "passivationManager).Stop", "(*" + P + "scheduler).Stop", "(*" + P + "dispatcher).signalStop", "(*" + P + "dispatcher).schedule",
             M("unregisterMetrics"), M("submitSupervision")],
    "timeout_ms": {"quick": 400000, "thorough": 1800000},
    "explanation": (
        "Kernels of ActorSystem.Stop on the real code. "
        "vC17_gate: real PID.doReceive, isSystemMessage/isControlMessage, dispatchState, UnboundedMailbox, handleReceivedError(WithMessage), toDeadletter for each of the 11 message types "
        "(1 user + the 10 system/control types; case split) x system stopping or not x PID with/without actor system x scheduling pre-state idle/scheduled/processing (symbolic): "
        "stopping + user message => not enqueued, not scheduled, exactly one SendDeadletter to the dead-letter actor carrying message, sender, receiver and ErrSystemShuttingDown; otherwise "
        "enqueued once in the right mailbox (reference tables written in the harness) and scheduled once iff idle. Substituted: PID.Tell -> recorder, dispatcher.schedule -> counter. "
        "vC17_systemActor: real PID.Shutdown of an actor with a reserved (system) name: refused with ErrShutdownForbidden unless the system is stopping. "
        "vC17_afterStop: real PID.Shutdown/doStop/freeWatchees/freeChildren/freeWatchers/reset on the real tree with 0..2 messages accepted before the stop, then real Tell, Ask, runTurn, "
        "dispatchOne, handleReceived and a second Shutdown: Tell/Ask fail with ErrDead and enqueue/schedule nothing, the turn for the earlier messages never reaches Receive, PostStop ran exactly once. "
        "vC17_sequence: real actorSystem.shutdown (+ internal/chain) with every step replaced by a recorder (PID.Shutdown of the 9 guardians/system actors, poisonAllGrains, passivationManager.Stop, "
        "scheduler.Stop, runShutdownHooks, data-center stop, preShutdown, shutdownCluster, shutdownRemoting, tree.deleteNode, eventsStream.Close, reset, dispatcher.signalStop; multierr.Combine/AppendInto -> first error): "
        "which optional system actors exist is symbolic, which step fails is a case split. Asserted: the shutting-down flag is set before any step; passivation manager and scheduler stop before the user guardian; "
        "user guardian before dead letter / death watch / grains / system guardian / root; grains after the user guardian and before the system guardian; every step at most once; without a guardian failure the whole "
        "documented order; cluster then remoting shut down exactly once on every path (also after a user-guardian error); reset and signalStop last; Stop reports an error iff a step failed. "
        "vC17_treeTwoStops / vC17_treeChildStop (Mode C): real PID.Shutdown, doStop, freeChildren, reset, state-flag helpers, internal/chain on a subtree n0>{n1>n3,n2} (size = case split) under solver-chosen "
        "interleavings of two stoppers (same actor twice; top + child): PostStop at most once per actor, exactly once and nobody running when all stops returned, a parent's PostStop only after its children's completed, "
        "no PostStop after the top stop returned. Substituted there: tree.children/node/removeDescendant and PID.UnWatch/freeWatchees/freeWatchers by the harness's static topology / no-ops (the tree operations under a stop are "
        "C09's subject), errgroup by sequential execution, Tell by a counter. vC17_treeFailing (sequential, real tree): one actor's PostStop fails (symbolic which). "
        "vC17_grains (Mode C): real actorSystem.poisonAllGrains, grainPID.receive/runTurn/finishOrReclaim/dispatchOne/handlePoisonPill/handlePassivationPill/deactivate/enqueuePassivationPill, grainMailbox, "
        "GrainContext.NoErr, xsync.Map with a queued passivation pill and/or an in-flight message, one worker per grain (2 turns): OnDeactivate at most once, never overlapping OnReceive, none after the teardown returned, "
        "exactly once per grain and empty registry when it returned. vC17_grainLateSend (Mode C): real TellGrain gate, ensureGrainProcess, singleflight, ensureExistingGrainProcess, finalizeGrainActivation against "
        "shuttingDown.Store(true); poisonAllGrains (the two steps of shutdown, in its order). Substituted for grains: dispatcher.schedule/worker.reschedule -> per-grain token channel, grainPID.recovery -> no-op, "
        "(late send) grainPID.activate -> ghost that sets activated, localSend -> ensureGrainProcess + receive, GrainIdentity.Validate -> nil."),
    "bounds": {
        "quick": {"gate": "11 message types x 2 x 2 x 3 pre-states", "afterStop": "0..2 messages queued before the stop", "sequence": "16 failing-step cases x 8 optional-actor subsets",
                  "tree (Mode C)": "2 actors (parent, child), 2 stopper threads, 3 rounds", "treeFailing": "3 actors", "grains": "1 grain, {passivation pill | message in flight}, 2-3 threads, 3 rounds, throughput 2",
                  "grainLateSend": "1 grain (active | inactive), 3 threads, 3 rounds"},
        "thorough": {"tree (Mode C)": "2, 3 and 4 actors (n0>{n1>n3,n2}), 4 rounds", "treeFailing": "2..4 actors", "grains": "1-2 grains x {pill, message, both}", "rest": "as quick"},
        "shrunk constants": "contextPoolSize 8192 -> 2, grainContextCh capacity 512 -> 2",
    },
    "assumptions": [
        "children of one parent are stopped one after the other (errgroup replaced by sequential execution); Wait joining them is trusted",
        "Mode C tree entries use a static topology instead of the real tree (C09 checks the real tree operations of a stop sequentially); no spawn races the stop (C11)",
        "contexts are never cancelled (shutdown timeout does not expire): with an expired deadline poisonAllGrains gives up by design and some OnDeactivate hooks do not run",
        "the passivation manager goroutine is stopped before the teardown (asserted by vC17_sequence: passivationManager.Stop precedes the user guardian), so only an already queued passivation pill can meet the PoisonPill",
        "handler/PostStop overlap of an in-flight turn with an external Shutdown is C06-1..3, OnReceive after OnDeactivate within one turn is C31-1: not asserted again here",
        "PostStop / OnDeactivate hooks do not fail except where an entry makes the failure symbolic (vC17_treeFailing, vC17_sequence)",
        "map iteration order = insertion order",
    ],
}
