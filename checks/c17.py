P = "github.com/tochemey/goakt/v4/actor."
M = lambda n: "(*" + P + "PID)." + n
A = lambda n: "(*" + P + "actorSystem)." + n
EG = "golang.org/x/sync/errgroup."

SUB_GATE = {M("Tell"): P + "vC17_tellRec", "(*" + P + "dispatcher).schedule": P + "vC17_scheduleCount"}
SUB_AFTER = {"(*" + P + "dispatcher).schedule": P + "vC17_scheduleCount", M("unregisterPassivation"): P + "vC17_noopPID", M("unregisterMetrics"): P + "vC17_noopPID",
             M("cancelInFlightRequests"): P + "vC17_noopErr", M("submitSupervision"): P + "vC17_submitSupervision",
             M("Equals"): P + "vT_equals"}
SUB_SEQ = {
    M("Shutdown"): P + "vC17_seqShutdown", A("poisonAllGrains"): P + "vC17_seqPoison",
    "(*" + P + "passivationManager).Stop": P + "vC17_seqPassivatorStop", "(*" + P + "scheduler).Stop": P + "vC17_seqSchedulerStop",
    A("runShutdownHooks"): P + "vC17_seqHooks", A("stopDataCenterLeaderWatch"): P + "vC17_seqDCWatch", A("stopDataCenterController"): P + "vC17_seqDCController",
    A("preShutdown"): P + "vC17_seqPreShutdown", A("shutdownCluster"): P + "vC17_seqCluster", A("shutdownRemoting"): P + "vC17_seqRemoting",
    A("localActors"): P + "vC17_seqLocalActors", A("reset"): P + "vC17_seqReset", "(*" + P + "dispatcher).signalStop": P + "vC17_seqSignalStop",
    "(*" + P + "tree).deleteNode": P + "vC17_seqDeleteNode",
    "go.uber.org/multierr.Combine": P + "vC17_combine", "go.uber.org/multierr.AppendInto": P + "vC17_appendInto",
}
# failing step of vC17_sequence (see the vC17ev* constants): 0 none, 3 hooks, 5 data-center controller, 6 peer-state snapshot, 7 user guardian, 8 singleton manager,
# 9 relocator, 10 dead letter, 11 death watch, 12 grains, 13 topic actor, 14 NoSender, 15 system guardian, 16 root guardian, 19 cluster, 20 remoting
SEQ_FAIL = [0, 3, 5, 6, 7, 8, 9, 10, 11, 12, 13, 14, 15, 16, 19, 20]
SUB_TREE = {M("unregisterPassivation"): P + "vC17_noopPID", M("unregisterMetrics"): P + "vC17_noopPID", M("cancelInFlightRequests"): P + "vC17_noopErr",
            M("Tell"): P + "vC17_treeTell", M("Equals"): P + "vT_equals",
            EG + "WithContext": P + "vC17_egWithContext", "(*" + EG + "Group).Go": P + "vC17_egGo", "(*" + EG + "Group).Wait": P + "vC17_egWait"}
T = lambda n: "(*" + P + "tree)." + n
SUB_TREE_C = dict(SUB_TREE)
SUB_TREE_C.update({T("children"): P + "vC17_children", T("node"): P + "vC17_node", T("removeDescendant"): P + "vC17_removeDescendant", M("UnWatch"): P + "vC17_unwatch",
                   M("freeWatchees"): P + "vC17_nilErrCtx", M("freeWatchers"): P + "vC17_noopCtx"})
CONC = {"rounds": 3, "unwind": 8, "unwind_mode": "assume", "feasibility": False, "map_range": "per_entry", "map_dedup": True,
        "loop_bounds": {M("setState"): 3, M("compareAndSwapState"): 3}}
G = lambda n: "(*" + P + "grainPID)." + n
SUB_GRAIN = {"(*" + P + "dispatcher).schedule": P + "vC17_gSchedule", "(*" + P + "worker).reschedule": P + "vC17_gReschedule", G("recovery"): P + "vC17_gRecovery"}
MO = {"replay": "model-only"}
CHECK = {
    "id": "C17",
    "packages": ["./actor"],
    "harness": ["actor/zz_verif_c17.go", "actor/zz_verif_c10.go"],
    "replace": [{"file": "actor/pools.go", "old": "const contextPoolSize = 8192", "new": "const contextPoolSize = 2"},
                {"file": "actor/grain_context.go", "old": "var grainContextCh = make(chan *GrainContext, 512)", "new": "var grainContextCh = make(chan *GrainContext, 2)"}],
    "entries": [
        dict(MO, fn=P + "vC17_gate", cases={"kind": list(range(11))}, opts={"substitute": SUB_GATE, "equalfold_ascii": True},
             cover_optional=("rejected", "control-accepted", "system-message-passes-gate")),
        dict(MO, fn=P + "vC17_afterStop", opts={"substitute": SUB_AFTER, "map_range": "per_entry", "map_dedup": True, "select_precise": True}),
        dict(MO, fn=P + "vC17_sequence", cases={"failingStep": SEQ_FAIL}, opts={"substitute": SUB_SEQ},
             cover_optional=("clean", "non-guardian-step-failed", "guardian-failed", "user-guardian-failed")),
        dict(MO, fn=P + "vC17_treeTwoStops", cases={"size": [2]}, opts=dict(CONC, substitute=SUB_TREE_C)),
        dict(MO, fn=P + "vC17_treeChildStop", cases={"size": [2]}, opts=dict(CONC, substitute=SUB_TREE_C)),
        dict(MO, fn=P + "vC17_treeFailing", cases={"size": [3]}, opts={"substitute": SUB_TREE, "map_range": "per_entry", "map_dedup": True, "recursion": 5}),
        dict(MO, fn=P + "vC17_grains", cases={"grains": [1], "traffic": [0, 1]}, opts={"rounds": 3, "unwind": 6, "unwind_mode": "assume", "feasibility": False, "substitute": SUB_GRAIN}),
    ],
    "opts": {"unwind": 40},
    # only functions that are substituted in every entry that reaches them (a stopped function has no body in the IR)
    "stop": [A("runShutdownHooks"), A("stopDataCenterLeaderWatch"), A("stopDataCenterController"), A("preShutdown"), A("shutdownCluster"), A("shutdownRemoting"),
             A("localActors"), "(*" + P + "passivationManager).Stop", "(*" + P + "scheduler).Stop", "(*" + P + "dispatcher).signalStop", "(*" + P + "dispatcher).schedule",
             M("unregisterMetrics"), M("submitSupervision")],
    "timeout_ms": {"quick": 400000, "thorough": 1800000},
    "explanation": "TODO",
    "bounds": {},
    "assumptions": [],
}
