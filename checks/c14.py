P = "github.com/tochemey/goakt/v4/actor."
CHECK = {
    "id": "C14",
    "packages": ["./actor"],
    "harness": ["actor/zz_verif_c14.go"],
    "entries": [
        {"fn": P + "vC14_sequence"},
        {"fn": P + "vC14_inflight"},
    ],
    "opts": {"unwind": 8},
    "explanation": "behaviorStack.Push/Pop/Peek/Reset/Len and PID.setBehavior/resetBehavior/setBehaviorStacked/unsetBehaviorStacked (through ReceiveContext.Become*/UnBecome*) executed symbolically for every sequence of 5 operations from a fresh actor, compared with a stack model; plus a behaviour that switches while handling.",
    "bounds": {"operations": 5, "stack depth": "<= 6"},
}
