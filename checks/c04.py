P = "github.com/tochemey/goakt/v4/actor."
CHECK = {
    "id": "C04",
    "packages": ["./actor"],
    "harness": ["actor/zz_verif_c04.go"],
    "replace": [{"file": "actor/pools.go", "old": "const contextPoolSize = 8192", "new": "const contextPoolSize = 2"},
                {"file": "actor/unbounded_segmented_mailbox.go", "old": "const segmentSize = 256", "new": "const segmentSize = 2"}],
    "entries": [
        {"fn": P + "vC04_unbounded", "replay": "model-only", "may_be_unreachable": ("a rejected message is never dequeued",)},
        {"fn": P + "vC04_segmented", "replay": "model-only", "may_be_unreachable": ("a rejected message is never dequeued",)},
        {"fn": P + "vC04_nonblocking", "replay": "model-only", "cover_optional": ("rejected",)},
        {"fn": P + "vC04_fair", "replay": "model-only", "may_be_unreachable": ("a rejected message is never dequeued",), "opts": {"substitute": {P + "deriveSenderKey": P + "vC04_senderKey", P + "senderLoadOrStore": P + "vC04_loadOrStore"}}},
        {"fn": P + "vC04_boundedPriority", "replay": "model-only"},
        {"fn": P + "vC04_priorityOrder", "opts": {"feasibility": True, "unwind": 6, "unwind_mode": "assert"}},
    ],
    "opts_thorough": {"rounds": 5},
    "opts": {"rounds": 3, "unwind": 3, "unwind_mode": "assume", "feasibility": False,
             "loop_bounds": {P + "vC04_scenario$3": 5, P + "vC04_scenario": 8}},
    "timeout_ms": {"quick": 400000, "thorough": 1800000},
    "explanation": "Enqueue/Dequeue/IsEmpty of the mailbox implementations executed under solver-chosen interleavings (2 producers, 1 consumer) with ghost-tagged contexts; pools (contextCh, segmentPool) included so recycling is reachable.",
    "bounds": {"threads": "2 producers (2+1 messages), 1 consumer (<= 3 dequeues) + sequential drain", "rounds": 3, "segmentSize": 2, "contextPoolSize": 2},
}
