P = "github.com/tochemey/goakt/v4/actor."
SUB = {
    "time.Now": P + "vC35_now",
    "time.Until": P + "vC35_until",
    "time.NewTimer": P + "vC35_newTimer",
    "time.Sleep": P + "vC35_sleep",
    "time.After": P + "vC35_after",
    "(*time.Timer).Stop": P + "vC35_timerStop",
    "context.WithDeadline": P + "vC35_withDeadline",
    "github.com/tochemey/goakt/v4/internal/address.FormatHostPort": P + "vC35_hostPort",
    "(*" + P + "actorSystem).ActorOf": P + "vC35_actorOf",
    "(*" + P + "actorSystem).InCluster": P + "vC35_inClusterFn",
}
LOOP = "(*" + P + "PID).deliverAcrossHandoff"
CHECK = {
    "id": "C35",
    "packages": ["./actor"],
    "harness": ["actor/zz_verif_c35.go"],
    "entries": [
        {"fn": P + "vC35_across", "replay": "model-only", "opts": {"unwind_mode": "assume"},
         "opts_quick": {"loop_bounds": {LOOP: 3}}, "opts_thorough": {"loop_bounds": {LOOP: 8}}, "cover_optional": ("ten-sleeps",)},
        {"fn": P + "vC35_across_e2e", "replay": "model-only", "opts": {"unwind_mode": "assume", "loop_bounds": {LOOP: 1}}, "cover_optional": ("ten-sleeps", "delivered-after-masking")},
        {"fn": P + "vC35_bypass", "replay": "model-only"},
    ],
    "timeout_ms": {"quick": 400000, "thorough": 3000000},
    "opts": {"unwind": 20, "substitute": SUB, "fresh_solver": True},
    "stop": [k for k in SUB.keys() if k.startswith("(*" + P)],
    "explanation": "(*PID).deliverAcrossHandoff, (*PID).deliverBypassingHandoff, sleepWithinHandoff, isHandoffRetryable, (*actorSystem).isEndpointRelocating / relocationInFlight / recordRelocationHandoff and the real xsync.TTLMap (Set/Get/ActiveLen) behind relocatingEndpoints are executed symbolically. "
                   "The clock is owned by the harness (time.Now, time.Until, time.NewTimer, time.Sleep, time.After, (*time.Timer).Stop and context.WithDeadline are substituted): every clock reading, resolution, timer creation and delivery lets an arbitrary latency pass, which is accumulated in a slack term; a timer of duration d advances the clock by d (+latency) or the caller's context is cancelled before it fires; "
                   "the delivery callback takes an arbitrary time but honours the deadline of the context it is given. (*actorSystem).ActorOf is substituted by a resolver whose outcome is arbitrary at every attempt (local target, remote target on the departed endpoint, remote target on a live endpoint, any of the 8 retryable errors, a terminal error); InCluster is a symbolic boolean. "
                   "The departed endpoint was recorded at an arbitrary earlier time (inside or outside its 3 s window, or never). Asserted: elapsed <= maxWait + slack for every maxWait > 0; for maxWait <= 0 masking <= 3.5 s + slack; a never-resolvable name is masked <= 500 ms + slack; at most one delivery, to the last resolved target, result passed through; "
                   "giving up yields the stalled (retryable) error / ErrRelocationInProgress; the retry loop terminates (unwinding assertion, <= 20 iterations); the bypass variant resolves exactly once, never creates a timer and adds no waiting.",
    "bounds": {"maxWait": "[-2^62, 2^61] ns (all signs)", "clock": "start < 2^40 ns, each latency <= 2^40 ns, delivery time <= 2^61 ns", "retry loop": "unwinding assertion at 20 iterations (needs 15)", "resolution outcomes": "5 kinds, chosen freshly at each attempt"},
    "assumptions": ["deliver honours the deadline of the context it is given (time beyond it counts as latency)", "errors.Is/As follow the library model (Unwrap chains of fmt.Errorf %w / errors.Join; custom Is/As methods are not consulted)",
                    "time.Time is abstracted to its int64 nanosecond reading"],
}
