P = "github.com/tochemey/goakt/v4/actor."
SUB = {
    "time.Now": P + "vC35_now",
    "time.Until": P + "vC35_until",
    "time.NewTimer": P + "vC35_newTimer",
    "time.Sleep": P + "vC35_sleep",
    "time.After": P + "vC35_after",
    "(*time.Timer).Stop": P + "vC35_timerStop",
    "context.WithDeadline": P + "vC35_withDeadline",
    "github.com/tochemey/goakt/v4/internal/address.FormatHostPort": P + "vC35_hostPort",
    "(*" + P + "actorSystem).ActorOf": P + "vC35_actorOf",
    "(*" + P + "actorSystem).InCluster": P + "vC35_inClusterFn",
}
LOOP = "(*" + P + "PID).deliverAcrossHandoff"
CHECK = {
    "id": "C35",
    "packages": ["./actor"],
    "harness": ["actor/zz_verif_c35.go"],
    "entries": [
        {"fn": P + "vC35_across", "replay": "model-only", "opts": {"unwind_mode": "assume"},
         "opts_quick": {"loop_bounds": {LOOP: 3}}, "opts_thorough": {"loop_bounds": {LOOP: 5}}, "cover_optional": ("ten-sleeps",)},
        {"fn": P + "vC35_across_e2e", "replay": "model-only", "opts": {"unwind_mode": "assume", "loop_bounds": {LOOP: 1}}, "cover_optional": ("ten-sleeps", "delivered-after-masking")},
        {"fn": P + "vC35_bypass", "replay": "model-only"},
        {"fn": P + "vC35_sendsync", "replay": "model-only",
         "opts": {"unwind_mode": "assume", "loop_bounds": {LOOP: 2}, "substitute": dict(SUB, **{"(*" + P + "PID).Ask": P + "vC35_ask", "(*" + P + "PID).DiscoverActor": P + "vC35_discover"})}},
    ],
    "timeout_ms": {"quick": 400000, "thorough": 3000000},
    "opts": {"unwind": 20, "substitute": SUB, "fresh_solver": True},
    "stop": [k for k in SUB.keys() if k.startswith("(*" + P)] + ["(*" + P + "PID).Ask", "(*" + P + "PID).DiscoverActor"],
    "explanation": "(*PID).deliverAcrossHandoff, (*PID).deliverBypassingHandoff, sleepWithinHandoff, isHandoffRetryable, (*actorSystem).isEndpointRelocating / relocationInFlight / recordRelocationHandoff and the real xsync.TTLMap (Set/Get/ActiveLen) behind relocatingEndpoints are executed symbolically. "
                   "The clock is owned by the harness (time.Now, time.Until, time.NewTimer, time.Sleep, time.After, (*time.Timer).Stop and context.WithDeadline are substituted): every clock reading is a fresh value >= the previous reading + the waiting the code requested since (timer durations, delivery time within its deadline) - anything beyond is arbitrary latency; a timer of duration d either fires (d later, + latency) or the caller's context is cancelled before; "
                   "the delivery callback takes an arbitrary time but honours its own timeout (SendSync's Ask) and the deadline of the context it is given. (*actorSystem).ActorOf is substituted by a resolver whose outcome is arbitrary at every attempt (local target, remote target on the departed endpoint, remote target on a live endpoint, one of 8 retryable errors, one of 2 terminal errors); InCluster is a symbolic boolean; address.FormatHostPort is substituted by an equivalent for the two ports that occur (asserted). "
                   "The departed endpoint was recorded at an arbitrary earlier time (inside or outside its 3 s window, or never). "
                   "The deadline claim is decomposed into obligations decided per retry-loop iteration: every sleep masking a pinned target ends <= start + min(3 s, maxWait); every sleep masking a failed resolution ends <= 500 ms after the first such sleep began and <= start + maxWait; every sleep is in (0, 300 ms]; each arm cuts a sleep below the 50 ms minimum back-off at most once (progress => the loop is bounded); inside a cluster the delivery's context deadline is exactly start + maxWait (none for maxWait <= 0). "
                   "With 'a timer of duration d ends d + latency later' these give by induction: return time <= start + maxWait + latency. vC35_across_e2e additionally asserts the end-to-end inequality (requested waiting <= maxWait; <= 3.5 s of masking for maxWait <= 0; <= 500 ms for a never-resolvable name) for runs with at most one loop iteration. "
                   "Functional part: at most one delivery, to the last resolved target, result passed through; giving up yields the stalled (retryable) error resp. ErrRelocationInProgress; a terminal error is surfaced as is; outside a cluster exactly one resolution and no sleep. vC35_sendsync: the real (*PID).SendSync call site with (*PID).Ask substituted by the delivery model and DiscoverActor by a failing stub (<= 2 loop iterations): the Ask runs under the deadline-bounded context with the caller's message and timeout. Bypass variant: exactly one resolution, never a timer/sleep, no waiting before the delivery, pinned target => ErrRelocationInProgress.",
    "bounds": {"maxWait": "[-2^62, 2^61] ns (all signs)", "clock": "first reading < 2^40 ns, readings < 2^61 ns, delivery time <= 2^61 ns",
               "retry loop": "runs with <= 3 (quick) / <= 5 (thorough) loop iterations are covered (longer runs are cut by an unwinding ASSUMPTION; boundedness follows from the progress obligation on paper: <= 70 full sleeps + 2 cut sleeps, in practice 15); end-to-end entry: <= 1 iteration",
               "resolution outcomes": "5 kinds, chosen freshly at each attempt"},
    "assumptions": ["deliver honours the deadline of the context it is given (time beyond it counts as latency)", "errors.Is/As follow the library model (Unwrap chains of fmt.Errorf %w / errors.Join; custom Is/As methods are not consulted)",
                    "time.Time is abstracted to its int64 nanosecond reading"],
}
