P = "github.com/tochemey/goakt/v4/actor."
EG = "golang.org/x/sync/errgroup."
SUB = {
    "(*" + P + "PID).Tell": P + "vT_tell",
    "(*" + P + "PID).Equals": P + "vT_equals",
    EG + "WithContext": P + "vC09_egWithContext",
    "(*" + EG + "Group).Go": P + "vC09_egGo",
    "(*" + EG + "Group).Wait": P + "vC09_egWait",
}
CHECK = {
    "id": "C09",
    "packages": ["./actor"],
    "harness": ["actor/zz_verif_c09.go", "actor/zz_verif_c10.go"],
    "entries": [
        # shapes: 23 = chain p0>p1>p2>p3, 0 = four siblings, 11 = p0>{p1>p3, p2}, 9 = p0>p1>{p2,p3}... (see vC09_parentOf)
        {"fn": P + "vC09_stop", "replay": "model-only", "cases_quick": {"shape": [23, 11, 0, 15]}, "cases_thorough": {"shape": list(range(24))},
         "cover_optional": ("ordered-pair", "subtree-of-three", "parent-notified")},
        {"fn": P + "vC09_treeOps", "replay": "model-only", "cases_quick": {"ops": [3]}, "cases_thorough": {"ops": [4]}},
    ],
    "opts": {"unwind": 16, "feas_from_iter": 4, "substitute": SUB, "map_range": "per_entry", "map_dedup": True, "recursion": 5},
    "stop": [k for k in SUB.keys() if "PID)" in k],
    "explanation": "TODO",
    "bounds": {},
}
