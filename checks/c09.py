P = "github.com/tochemey/goakt/v4/actor."
EG = "golang.org/x/sync/errgroup."
SUB = {
    "(*" + P + "PID).Tell": P + "vT_tell",
    "(*" + P + "PID).Equals": P + "vT_equals",
    EG + "WithContext": P + "vC09_egWithContext",
    "(*" + EG + "Group).Go": P + "vC09_egGo",
    "(*" + EG + "Group).Wait": P + "vC09_egWait",
}
SUB_SPAWN = dict(SUB)
SUB_SPAWN["(*" + P + "actorSystem).runSpawnActivation"] = P + "vC09_admitSpawn"
CHECK = {
    "id": "C09",
    "packages": ["./actor"],
    "harness": ["actor/zz_verif_c09.go", "actor/zz_verif_c10.go"],
    "entries": [
        # shapes: 23 = chain p0>p1>p2>p3, 0 = four siblings, 11 = p0>{p1>p3, p2}, 9 = p0>p1>{p2,p3}... (see vC09_parentOf)
        {"fn": P + "vC09_stop", "replay": "model-only", "cases_quick": {"shape": [23, 15], "target": [1, 2], "suspended": [0]}, "cases_thorough": {"shape": [23, 15, 11, 0], "target": [1, 2, 3], "suspended": [0]},
         "cover_optional": ("ordered-pair", "subtree-of-three", "parent-notified"),
         "may_be_unreachable": ("actors outside the subtree keep their state", "an actor outside the subtree is not stopped", "a descendant's PostStop completes before its ancestor's", "the running parent of the stopped actor is notified once")},
        # a suspended child inside the stopped subtree (p2 under p1 in the chain) must be stopped too
        {"fn": P + "vC09_stop", "replay": "model-only", "cases": {"shape": [23], "target": [1], "suspended": [4]},
         "cover_optional": ("ordered-pair", "subtree-of-three", "parent-notified"),
         "may_be_unreachable": ("actors outside the subtree keep their state", "an actor outside the subtree is not stopped", "a descendant's PostStop completes before its ancestor's", "the running parent of the stopped actor is notified once")},
        # SpawnChild landing inside / after the parent's stop
        {"fn": P + "vC09_spawnDuringStop", "replay": "model-only", "opts": {"substitute": SUB_SPAWN}, "cover_optional": ("late-spawn-admitted",),
         "may_be_unreachable": ("an actor spawned under a parent whose stop is under way (or over) is not left running when the stop has returned", "no registered actor is left with a dead parent")},
        # shapes (see vC09_shapeParent): 23 = root>a>b>c, 7 = root>{a,c} (b unregistered), 15 = root>{a>c, b}, 0 = root only; op: 0 addNode 1 addWatcher 2 removeWatcher 3 deleteNode
        {"fn": P + "vC09_treeOps", "replay": "model-only", "cases_quick": {"shape": [23, 7], "op": [0, 1, 2, 3]}, "cases_thorough": {"shape": list(range(24)), "op": [0, 1, 2, 3]},
         "cover_optional": ("add", "add-rejected", "watch", "delete"),
         # shapes in which only the root is registered have no non-root node to speak about
         "may_be_unreachable": ("Inv: every registered actor's parent is live and registered", "Inv: a parent lists each of its registered children",
                                "Inv: every listed child is registered and points back to its parent", "Inv: every watcher is registered", "Inv: every watchee is registered",
                                "Inv: watchers and watchees are symmetric", "Inv: watchees and watchers are symmetric", "parent(x) is the actor x was added under")},
    ],
    "opts": {"unwind": 24, "feas_from_iter": 6, "substitute": SUB, "map_range": "per_entry", "map_dedup": True, "recursion": 5},
    "stop": [k for k in SUB.keys() if "PID)" in k] + ["(*" + P + "actorSystem).runSpawnActivation"],
    "timeout_ms": {"quick": 1500000, "thorough": 3000000},
    "explanation": 'vC09_stop: real PID.Shutdown -> doStop (cancelInFlightRequests, unregisterMetrics, internal/chain runners, freeWatchees, freeChildren recursing into the real Shutdown of every child, Actor.PostStop, freeWatchers, deferred reset), tree.node/children/removeDescendant/removeWatcher/watchers/watchees, then deathWatch.handleTerminated -> tree.deleteNode for every Terminated the death watch was sent, on a tree of 4 actors under a root guardian (tree shape: one job per labelled shape; stopped actor: one job per actor; which actors are suspended: case split; symbolic: which of the four actors each of two bystander actors, one running and one suspended, watches). Asserted: exactly the actors of the stopped subtree run PostStop, once each, every descendant before its ancestor; when Shutdown returns none of them is running and the others are untouched; the death watch is told once per stopped actor; afterwards exactly the stopped actors are neither registered nor resolvable by name, the node counter follows and Inv_tree holds (id/name indexes agree, every registered node holds its live pid, parent live+registered and listing the child, descendants<->parentNode and watchers<->watchees symmetric, counter = number of nodes); a running watcher outside the subtree receives exactly one Terminated per stopped actor it watches, nobody else any. vC09_spawnDuringStop: parent with one child; SpawnChild -> spawnChildLocal (real liveness guard, childAddress, findRunningChild) is called at an arbitrary one of: inside the PostStop of the child (parent waiting in freeChildren after its snapshot), inside the PostStop of the parent, after Shutdown returned, or never; the materialization behind runSpawnActivation is replaced by its tree effect (a running actor registered under the parent); asserted: nothing admitted under the stopping/stopped parent is left running, no registered actor is left with a dead parent. vC09_treeOps: tree.addNode/addWatcher/removeWatcher/deleteNode with arbitrary arguments from an arbitrary valid tree over the pool {root,a,b,c} (shape and operation kind: case split; watch relation and arguments symbolic): Inv_tree holds in the constructed state and after the operation, the operation has exactly the effect of a reference model (registered set, parent map, watch relation), and node/nodeByName/parent/children/descendants/watchers/count agree with the model. Substitutions: (*PID).Tell -> recorder, (*PID).Equals -> exact ID comparison, errgroup.WithContext/Group.Go/Group.Wait -> sequential (Go runs the function at once; children stop one after the other).',
    "bounds": {"actors": "4 under a root guardian + death watch", "tree shapes": "quick 2 of the 24 labelled shapes (chain p0>p1>p2>p3, p0>{p1>p3,p2}); thorough 4 (those, p0>{p1>p2,p3}, four siblings); treeOps: quick 2, thorough all 24 shapes of the pool", "stopped actor": "quick p1,p2; thorough p1,p2,p3 (subtrees of 1-3 actors; stopping p0, i.e. the whole tree of 4, ran clean once for the chain (1495 obligations, 301 s) but needs ~9 GB per job and is not registered)", "suspended": "none (case split parameter; only the suspended bystander is exercised)", "bystander watch relation": "any subset of the 2x4 pairs"},
    "assumptions": ["children of one parent are stopped sequentially (errgroup replaced); concurrent overlapping stops/spawns/restarts are outside the claim",
                    "PostStop hooks do not fail", "map iteration order = insertion order"],
}
