M = "github.com/tochemey/goakt/v4/"
P = M + "actor."
RELOCATOR_SUBST = {
    "(*" + P + "ReceiveContext).Spawn": P + "vC33_spawn",
    "(*" + P + "ReceiveContext).Watch": P + "vC33_watch",
    "(*" + P + "ReceiveContext).Tell": P + "vC33_tell",
    "(*" + P + "actorSystem).reportAbortedRelocation": P + "vC33_reportAborted",
    "fmt.Sprintf": P + "vC33_sprintf",
}
SHARE_SUBST = {
    "(*github.com/flowchartsman/retry.Retrier).RunContext": P + "vC33_runContext",
    P + "enqueueRelocation": P + "vC33_enqueue",
    "(*" + P + "actorSystem).releaseGrainForLazyRelocation": P + "vC33_release",
}
CHECK = {
    "id": "C33",
    "packages": ["./actor"],
    "harness": ["actor/zz_verif_c33.go"],
    "entries": [
        {"fn": P + "vC33_dedup"},
        {"fn": P + "vC33_batches", "cases": {"actors": [0, 2, 3], "grains": [0, 1, 3], "sent": [0, 1, 3]}, "cover_optional": ("some-sent-some-unsent",)},
        {"fn": P + "vC33_relocator4", "tiers": ("quick",), "replay": "model-only", "opts": {"substitute": RELOCATOR_SUBST, "stub": [M + "supervisor.NewSupervisor"]}},
        {"fn": P + "vC33_relocator5", "tiers": ("thorough",), "replay": "model-only", "opts": {"substitute": RELOCATOR_SUBST, "stub": [M + "supervisor.NewSupervisor"]}},
        {"fn": P + "vC33_share", "replay": "model-only", "opts": {"substitute": SHARE_SUBST, "feas_from_iter": 1, "feasibility": "light", "unwind": 6, "loop_bounds": {P + "vC33_share": 16}}, "cases_quick": {"shape": [10, 1]}, "cases_thorough": {"shape": [10, 1, 11, 20, 2]},
         "cover_optional": ("actor-lost", "actor-taken-by-leader", "actor-delivered", "lazy-grain-released")},
    ],
    # substituted / irrelevant functions are not traversed by vdump (keeps the IR small)
    "stop": ["(*" + M + "internal/remoteclient.client).RelocateBatch", "(*" + P + "ReceiveContext).Spawn", "(*" + P + "ReceiveContext).Watch", "(*" + P + "ReceiveContext).Tell",
             "(*" + P + "actorSystem).reportAbortedRelocation", P + "enqueueRelocation", "(*" + P + "actorSystem).releaseGrainForLazyRelocation", M + "supervisor.NewSupervisor"],
    "replace": [{"file": "actor/relocation_worker.go", "old": "defaultRelocationBatchSize = 500", "new": "defaultRelocationBatchSize = 1"}],
    "opts": {"unwind": 16, "birth_guard_stores": True, "map_range": "per_entry", "map_dedup": True, "feas_from_iter": 100},
    "explanation": "",
    "bounds": {},
}
