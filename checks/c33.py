M = "github.com/tochemey/goakt/v4/"
P = M + "actor."
RELOCATOR_SUBST = {
    "(*" + P + "ReceiveContext).Spawn": P + "vC33_spawn",
    "(*" + P + "ReceiveContext).Watch": P + "vC33_watch",
    "(*" + P + "ReceiveContext).Tell": P + "vC33_tell",
    "(*" + P + "actorSystem).reportAbortedRelocation": P + "vC33_reportAborted",
    "fmt.Sprintf": P + "vC33_sprintf",
}
SHARE_SUBST = {
    "(*github.com/flowchartsman/retry.Retrier).RunContext": P + "vC33_runContext",
    P + "enqueueRelocation": P + "vC33_enqueue",
    "(*" + P + "actorSystem).releaseGrainForLazyRelocation": P + "vC33_release",
}
CHECK = {
    "id": "C33",
    "packages": ["./actor"],
    "harness": ["actor/zz_verif_c33.go"],
    "entries": [
        {"fn": P + "vC33_dedup"},
        {"fn": P + "vC33_finish", "replay": "model-only", "opts": {"substitute": {"(*" + P + "actorSystem).reportAbortedRelocation": P + "vC33_reportAborted"}}},
        {"fn": P + "vC33_batches", "cases": {"actors": [0, 2, 3], "grains": [0, 1, 3], "sent": [0, 1, 3]}, "cover_optional": ("some-sent-some-unsent",)},
        {"fn": P + "vC33_relocator5", "tiers": ("quick",), "replay": "model-only", "opts": {"substitute": RELOCATOR_SUBST, "stub": [M + "supervisor.NewSupervisor"]}},
        {"fn": P + "vC33_relocator6", "tiers": ("thorough",), "replay": "model-only", "opts": {"substitute": RELOCATOR_SUBST, "stub": [M + "supervisor.NewSupervisor"]}},
        {"fn": P + "vC33_share", "replay": "model-only", "opts": {"substitute": SHARE_SUBST, "feas_from_iter": 1, "feasibility": "light", "unwind": 6, "loop_bounds": {P + "vC33_share": 16}}, "cases_quick": {"shape": [10, 1, 120]}, "cases_thorough": {"shape": [10, 1, 11, 20, 2, 120, 102]},
         "cover_optional": ("actor-lost", "actor-taken-by-leader", "actor-delivered", "lazy-grain-released", "two-survivors-unreachable")},
    ],
    # substituted / irrelevant functions are not traversed by vdump (keeps the IR small)
    "stop": ["(*" + M + "internal/remoteclient.client).RelocateBatch", "(*" + P + "ReceiveContext).Spawn", "(*" + P + "ReceiveContext).Watch", "(*" + P + "ReceiveContext).Tell",
             "(*" + P + "actorSystem).reportAbortedRelocation", P + "enqueueRelocation", "(*" + P + "actorSystem).releaseGrainForLazyRelocation", M + "supervisor.NewSupervisor"],
    "replace": [{"file": "actor/relocation_worker.go", "old": "defaultRelocationBatchSize = 500", "new": "defaultRelocationBatchSize = 1"}],
    "opts": {"unwind": 16, "birth_guard_stores": True, "map_range": "per_entry", "map_dedup": True, "feas_from_iter": 100},
    "timeout_ms": {"quick": 400000, "thorough": 1800000},
    "explanation": "(a) vC33_dedup: actorSystem.beginRelocation/endRelocation/relocationJob for every history of 6 operations over 2 addresses against a reference map (a second begin while one is in flight returns false; "
                   "the registered snapshot is the first one's). (b) vC33_relocator5/6: relocator.startWorker, handleTerminated, abortRelocation, relocationWorker.finish and begin/end/relocationJob executed for every history of "
                   "5 (thorough 6) events over 2 addresses - node-left notification (also duplicates and re-departures; each with a fresh snapshot as the cluster store clones), relocator handles a queued Rebalance (spawn succeeds "
                   "or fails), worker completes, worker dies, relocator handles a Terminated - asserting: a notification starts a relocation iff none is in flight for the address; at most one worker relocates an address; "
                   "live workers have distinct names; the worker gets exactly the registered snapshot; spawn failure / worker death is reported exactly once with the job's own snapshot and releases the job; the Terminated of a "
                   "completed worker aborts nothing, not even a newer job of the same address; the registry always equals the reference. Substituted: ReceiveContext.Spawn/Watch/Tell (recorders; Spawn fails or returns a PID), "
                   "actorSystem.reportAbortedRelocation (recorder), fmt.Sprintf (worker name table by sequence number), supervisor.NewSupervisor stubbed; handleNodeLeftEvent itself is transcribed (begin, then queue the Rebalance). "
                   "(c) vC33_share: relocationWorker.relocateShare with sendBatches, sendBatch, reassignByRole, leastLoadedEligibleSurvivor, survivingPeersExcept, departedNodeOf, buildRelocateBatchRequests, recordUnsent, "
                   "releaseUndeliverableLazyGrains, relocationFailures.record/merge/items, splitFailures on one peer's share with symbolic roles (leader, target, other survivor, actors), eager flags, 1..2 peers, and an arbitrary "
                   "success/failure/peer-reported-failure outcome of every RelocateBatch call: every actor ends up accepted by exactly one node or listed as failed exactly once (also when the accepting peer reports it failed); "
                   "every eager grain likewise; every lazy grain is accepted by one node or has its directory entry released exactly once and is listed only if that release fails. Substituted: retry.Retrier.RunContext (<= "
                   "relocationBatchMaxAttempts calls), enqueueRelocation (recorder: item taken by the leader), actorSystem.releaseGrainForLazyRelocation (recorder, may fail); remoting client = harness type. "
                   "(d) vC33_batches: buildRelocateBatchRequests + recordUnsent + splitFailures for list shapes up to 3 actors / 3 grains and every cut point (symbolic eager flags). "
                   "Outside: relocate()'s errgroup fan-out, allocation (C32), actually re-creating actors on peers, handleNodeLeftEvent's snapshot lookup.",
    "bounds": {"addresses": 2, "relocator history": "5 events (quick) / 6 (thorough)", "registry history": "6 operations",
               "share": "quick: 1 actor or 1 grain; thorough: also 1+1, 2 actors, 2 grains (2 actors + 1 grain did not finish in 25 min and is not registered)", "peers": "target + <= 1 other survivor + leader", "roles": "{none, a}",
               "batches": "<= 3 actors, <= 3 grains, cut after 0/1/3 batches"},
    "shrunk": "defaultRelocationBatchSize 500 -> 1 (so that shares span several batches)",
    "assumptions": ["every node-left notification carries a fresh *PeerState (MemoryStore/BoltStore.GetPeerState return clones)", "relocator mailbox: any queued message may be handled next (superset of FIFO)",
                    "engine options birth_guard_stores, map_range=per_entry, map_dedup; vC33_share uses light loop-feasibility with unwind 6"],
}
