P = "github.com/tochemey/goakt/v4/actor."
SUB = {"(*" + P + "PID).Tell": P + "vC18_tell", "(*" + P + "dispatcher).schedule": P + "vC18_schedule"}
MO = {"replay": "model-only"}
CHECK = {
    "id": "C18",
    "packages": ["./actor"],
    "harness": ["actor/zz_verif_c18.go"],
    "entries": [
        dict(MO, fn=P + "vC18_local", cases={"message": [0, 1, 2, 3, 4, 5, 6, 7, 8], "cause": [0, 1, 2]}),
        dict(MO, fn=P + "vC18_actor", tiers=("quick",)),
        dict(MO, fn=P + "vC18_actor5", tiers=("thorough",)),
        dict(MO, fn=P + "vC18_remote", cases={"state": [0, 1, 2], "hasSender": [0, 1]}),
        dict(MO, fn=P + "vC18_remoteLeaving", cases={"hasSender": [0, 1]}),
        dict(MO, fn=P + "vC18_batch", cases={"n": [0, 1, 2, 3], "firstHasSender": [0, 1]}),
    ],
    "replace": [{"file": "actor/pools.go", "old": "const contextPoolSize = 8192", "new": "const contextPoolSize = 2"}],
    "opts": {"unwind": 8, "substitute": SUB, "go_inline": True, "select_precise": True, "birth_guard_stores": True, "equalfold_ascii": True, "batch_fresh": True},
    "stop": list(SUB.keys()),
    "explanation": "Executed symbolically: PID.doReceive (mailbox-refused arm and system-shutting-down arm) with the real NonBlockingBoundedMailbox(2) holding 0..2 earlier messages, PID.handleReceivedError(WithMessage), toDeadletter, ReceiveContext.Unhandled; the dead-letter actor deadLetter.Receive/handlePostStart/handleDeadletter/count for 3 letters to 2 receivers; actorSystem.deliverRemoteTellMessage for a receiver that is unknown / known but stopped / known and flagged running but stopping, passivating or suspended / running (with newRemoteSenderPID, address.Parse, handleRemoteTell, resolveDispatch, deadLetterRemoteMessage); enqueueCoalescedFailure + drainCoalescedFailures for a failed batch of n remote tells. A real actorSystem value (logger, tree, NoSender, dead-letter and system-guardian PIDs, sender-address cache, shuttingDown flag, failure queue) is used. Asserted: a dropped non-exempt message yields exactly one SendDeadletter told to the dead-letter actor carrying the original message, sender (NoSender's address when nil/NoSender), receiver and reason, and the message is neither enqueued nor does it schedule the actor; exempt messages (PostStart, Terminated, SendDeadletter) never become letters; accepted messages are queued exactly once (control messages in the system mailbox), schedule the actor once and produce no letter; handleDeadletter publishes each letter once with the original fields and bumps the total and the receiver's counter by one, count returns them; a failed batch of n messages yields n letters in order with the right message/receiver/sender/cause. Substituted: (*PID).Tell and (*dispatcher).schedule by recorders; the remoting client by a fake whose serializer maps one byte to one of 4 ghost messages.",
    "bounds": {'local': 'message kind (9, case split: user message, PostStart, Terminated, SendDeadletter, PoisonPill, PausePassivation, AsyncRequest, PanicSignal, AsyncResponse) x drop cause (3, case split) x sender {nil, NoSender, actor} x 0..2 queued messages (symbolic)', 'dead-letter actor': '3 letters (thorough: 5), 2 receivers (symbolic choice)', 'remote': 'receiver state {unknown, stopped, running, still flagged running but stopping/passivating/suspended (any combination)} x sender present/absent (case split) x 4 payloads (symbolic)', 'batch': 'n = 0..3 messages, alternating receivers/senders', 'shrunk constant': 'contextPoolSize 8192 -> 2'},
    "assumptions": ["wire strings (receiver, sender) are concrete canonical addresses: parsing arbitrary strings is C26's subject", 'reasons built with fmt.Errorf / errors.Join are opaque strings in the model and are not compared (the sentinel reasons ErrMailboxFull/ErrUnhandled/ErrSystemShuttingDown/ErrRemoteSendFailure are)', 'payload deserialization succeeds (a payload that cannot be decoded is logged and skipped by the code; outside the claim)', 'concurrent traffic is outside: the counters are atomic increments; the drain goroutine runs inline after the queue is closed'],
}
