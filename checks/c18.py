P = "github.com/tochemey/goakt/v4/actor."
SUB = {"(*" + P + "PID).Tell": P + "vC18_tell", "(*" + P + "dispatcher).schedule": P + "vC18_schedule"}
MO = {"replay": "model-only"}
CHECK = {
    "id": "C18",
    "packages": ["./actor"],
    "harness": ["actor/zz_verif_c18.go"],
    "entries": [
        dict(MO, fn=P + "vC18_local", cases={"message": [0, 1, 2, 3, 4, 5, 6], "cause": [0, 1, 2]}),
        dict(MO, fn=P + "vC18_actor"),
        dict(MO, fn=P + "vC18_dbg", tiers=("x",)),
        dict(MO, fn=P + "vC18_remote", cases={"state": [0, 1, 2], "hasSender": [0, 1]}),
        dict(MO, fn=P + "vC18_batch", cases={"n": [0, 1, 2, 3], "firstHasSender": [0, 1]}),
    ],
    "replace": [{"file": "actor/pools.go", "old": "const contextPoolSize = 8192", "new": "const contextPoolSize = 2"}],
    "opts": {"unwind": 8, "substitute": SUB, "go_inline": True, "select_precise": True, "birth_guard_stores": True, "equalfold_ascii": True, "batch_fresh": True},
    "stop": list(SUB.keys()),
    "explanation": "TODO",
    "bounds": {},
}
