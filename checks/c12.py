P = "github.com/tochemey/goakt/v4/actor."
SUB = {"(*" + P + "PID).doStop": P + "vC12_doStop"}
MO = {"replay": "model-only"}
EV = [0, 1, 2, 3, 4, 5]
CHECK = {
    "id": "C12",
    "packages": ["./actor"],
    "harness": ["actor/zz_verif_c12.go"],
    "entries": [
        dict(MO, fn=P + "vC12_timeInit"),
        dict(MO, fn=P + "vC12_timeStep", cases={"event": EV, "entry": [0, 1, 2]}),
        dict(MO, fn=P + "vC12_timeHistory2", cases={"e1": EV, "e2": [5]}, tiers=("quick",), cover_optional=("passivated",)),
        dict(MO, fn=P + "vC12_timeHistory3", cases={"e1": EV, "e2": EV}, tiers=("thorough",), cover_optional=("passivated", "reinstated")),
        dict(MO, fn=P + "vC12_race"),
        dict(MO, fn=P + "vC12_countInit"),
        dict(MO, fn=P + "vC12_countStep", cases={"event": EV, "entry": [1, 2]}, cover_optional=("re-registered",)),
        dict(MO, fn=P + "vC12_countHistory3", tiers=("quick",)),
        dict(MO, fn=P + "vC12_countHistory4", tiers=("thorough",)),
        dict(MO, fn=P + "vC12_countReregister"),
        dict(MO, fn=P + "vC12_longlived"),
    ],
    "replace": [{"file": "actor/passivation_manager.go", "old": "messageTriggers: make(chan *passivationEntry, 1024),", "new": "messageTriggers: make(chan *passivationEntry, 4),"}],
    # trigger's retry loop spins while tryPassivation keeps refusing (actor stopping, or suspended with passivation resumed): explored
    # for 2 iterations (refusal by the skip-next guard, then success), longer spins are assumed away (liveness, not this property)
    "opts": {"unwind": 8, "substitute": SUB, "go_inline": True, "select_precise": True, "batch_fresh": True, "unwind_mode": "assume",
             "loop_bounds": {"(*" + P + "passivationManager).trigger": 2}},
    "timeout_ms": {"quick": 600000, "thorough": 1800000},
    "stop": list(SUB.keys()),
    "explanation": "passivationManager.Register/Unregister/Pause/Resume/Touch/nextEntry/trigger/MessageProcessed/processMessageEntry/signalMessageEntry/passivate, passivationHeap with container/heap, entry.refreshDeadline, PID.markActivity/recordProcessedMessage/tryPassivation/pausePassivation/resumePassivation/startPassivation/suspend/doReinstate/setState/compareAndSwapState/reset and the passivation strategies are executed symbolically for one actor and its manager; time.Now is an arbitrary non-decreasing clock; the timeout T (any value in (0,2^40) ns) and the message count N are symbolic. Events: a message is handled (what handleReceived does: markActivity(now) + recordProcessedMessage), PausePassivation, ResumePassivation, suspend, reinstate, the manager's loop wakes (nextEntry+trigger, or a message-count trigger is served). (*PID).doStop is substituted by a recorder that asserts, at the moment of passivation: at most one passivation (PostStop), never long-lived, never while paused/suspended/stopping, time-based: now - (stamp of the latest handled message) >= T - 100ms and now - start >= T; count-based: >= N user messages handled since the registration. Main entries are ONE EVENT FROM AN ARBITRARY STATE satisfying an invariant written in the harness (activity stamps, flags mirror the observer's view, queued entry => deadline >= coalesced stamp + T; count: sinceRegistration = processed - baseline + 1, pending => threshold reached, queued trigger <=> enqueued and pending), plus invariant(init) on a freshly started actor, so histories of any length are covered; short histories from the initial state give the reachability witnesses. After the event: invariant again, a passivated actor is not running, gone from the manager, exactly one ActorPassivated event. Two dedicated entries exhibit known findings: a message handled between trigger's deadline test and tryPassivation (placed with the manager's own passivateFn hook), and a queued message-count trigger surviving a re-registration.",
    "bounds": {'inductive step': '1 event (6 kinds, case split) from any state satisfying the invariant; 3 manager-entry shapes (unregistered / registered / queued) for time-based, 2 (registered / trigger queued) for count-based', 'histories': {'quick': 'time-based: 2 events (second = manager wake); count-based: 3 symbolic events, N <= 2', 'thorough': 'time-based: 3 events (first two case split, third symbolic); count-based: 4 symbolic events'}, 'actors': 1, 'timeout T': '(0, 2^40) ns', 'N': '[1, 2^30] in the step, <= 2 in histories', 'clock': 'arbitrary non-decreasing, < 2^62 ns, first reading >= 100ms', 'trigger retry loop': '2 iterations explored, longer spins assumed away', 'shrunk constant': 'messageTriggers channel capacity 1024 -> 4'},
    "assumptions": ['the activity time of a message is the time stamp its turn took before handling it (runTurn reads the clock once per turn)', "sequential events: the only interleaving modelled is the one placed by vC12_race between trigger's deadline test and tryPassivation", "(*PID).doStop is substituted (its body needs a whole actor system): 'PostStop exactly once' is claimed as 'doStop is entered at most once per actor and only from tryPassivation'", "trigger's retry loop spins while tryPassivation keeps refusing (actor stopping, or suspended with passivation resumed by hand): executions with more than 2 iterations are assumed away (liveness, not this property)", 'doReinstate on an actor that is stopping but not suspended is not in the event alphabet', "one actor in the manager's heap (the heap order among several actors is container/heap's)", 'go statements run inline; a select with one case and default takes the case exactly when it is enabled'],
}
