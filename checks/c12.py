P = "github.com/tochemey/goakt/v4/actor."
SUB = {"(*" + P + "PID).doStop": P + "vC12_doStop"}
CHECK = {
    "id": "C12",
    "packages": ["./actor"],
    "harness": ["actor/zz_verif_c12.go"],
    "entries": [
        {"fn": P + "vC12_time1", "replay": "model-only", "tiers": ("x",)},
        {"fn": P + "vC12_time2", "replay": "model-only", "tiers": ("x",)},
        {"fn": P + "vC12_time3", "replay": "model-only", "tiers": ("x",)},
        {"fn": P + "vC12_time4", "replay": "model-only", "tiers": ("quick",)},
        {"fn": P + "vC12_count4", "replay": "model-only", "tiers": ("quick",)},
        {"fn": P + "vC12_longlived", "replay": "model-only"},
        {"fn": P + "vC12_race", "replay": "model-only"},
        {"fn": P + "vC12_time5", "replay": "model-only", "tiers": ("thorough",)},
        {"fn": P + "vC12_count5", "replay": "model-only", "tiers": ("thorough",)},
    ],
    "replace": [{"file": "actor/passivation_manager.go", "old": "messageTriggers: make(chan *passivationEntry, 1024),", "new": "messageTriggers: make(chan *passivationEntry, 4),"}],
    "opts": {"unwind": 8, "substitute": SUB, "go_inline": True, "select_precise": True},
    "stop": list(SUB.keys()),
    "explanation": "TODO",
    "bounds": {},
}
