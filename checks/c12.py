P = "github.com/tochemey/goakt/v4/actor."
SUB = {"(*" + P + "PID).doStop": P + "vC12_doStop"}
MO = {"replay": "model-only"}
EV = [0, 1, 2, 3, 4, 5]
CHECK = {
    "id": "C12",
    "packages": ["./actor"],
    "harness": ["actor/zz_verif_c12.go"],
    "entries": [
        dict(MO, fn=P + "vC12_timeInit"),
        dict(MO, fn=P + "vC12_timeStep", cases={"event": EV, "entry": [0, 1, 2]}),
        dict(MO, fn=P + "vC12_timeHistory2", cases={"e1": EV, "e2": [5]}, tiers=("quick",), cover_optional=("passivated",)),
        dict(MO, fn=P + "vC12_timeHistory3", cases={"e1": EV, "e2": EV}, tiers=("thorough",), cover_optional=("passivated", "reinstated")),
        dict(MO, fn=P + "vC12_race"),
        dict(MO, fn=P + "vC12_countInit"),
        dict(MO, fn=P + "vC12_countStep", cases={"event": EV, "entry": [1, 2]}, cover_optional=("re-registered",)),
        dict(MO, fn=P + "vC12_countHistory3", tiers=("quick",)),
        dict(MO, fn=P + "vC12_countHistory4", tiers=("thorough",)),
        dict(MO, fn=P + "vC12_countReregister"),
        dict(MO, fn=P + "vC12_longlived"),
    ],
    "replace": [{"file": "actor/passivation_manager.go", "old": "messageTriggers: make(chan *passivationEntry, 1024),", "new": "messageTriggers: make(chan *passivationEntry, 4),"}],
    # trigger's retry loop spins while tryPassivation keeps refusing (actor stopping, or suspended with passivation resumed): explored
    # for 2 iterations (refusal by the skip-next guard, then success), longer spins are assumed away (liveness, not this property)
    "opts": {"unwind": 8, "substitute": SUB, "go_inline": True, "select_precise": True, "unwind_mode": "assume",
             "loop_bounds": {"(*" + P + "passivationManager).trigger": 2}},
    "timeout_ms": {"quick": 600000, "thorough": 1800000},
    "stop": list(SUB.keys()),
    "explanation": "TODO",
    "bounds": {},
}
