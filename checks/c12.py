P = "github.com/tochemey/goakt/v4/actor."
SUB = {"(*" + P + "PID).doStop": P + "vC12_doStop"}
MO = {"replay": "model-only"}
CHECK = {
    "id": "C12",
    "packages": ["./actor"],
    "harness": ["actor/zz_verif_c12.go"],
    "entries": [
        dict(MO, fn=P + "vC12_timeInit"),
        dict(MO, fn=P + "vC12_timeStep", cases={"event": [0, 1, 2, 3, 4, 5], "entry": [0, 1, 2]}),
        dict(MO, fn=P + "vC12_timeHistory2"),
        dict(MO, fn=P + "vC12_race"),
        dict(MO, fn=P + "vC12_countInit"),
        dict(MO, fn=P + "vC12_countStep", cases={"event": [0, 1, 2, 3, 4, 5], "entry": [0, 1, 2]}),
        dict(MO, fn=P + "vC12_countHistory3"),
        dict(MO, fn=P + "vC12_countReregister"),
        dict(MO, fn=P + "vC12_longlived"),
    ],
    "replace": [{"file": "actor/passivation_manager.go", "old": "messageTriggers: make(chan *passivationEntry, 1024),", "new": "messageTriggers: make(chan *passivationEntry, 4),"}],
    "opts": {"unwind": 8, "substitute": SUB, "go_inline": True, "select_precise": True},
    "stop": list(SUB.keys()),
    "explanation": "TODO",
    "bounds": {},
}
