import importlib.util, os
_spec = importlib.util.spec_from_file_location("c04", os.path.join(os.path.dirname(os.path.abspath(__file__)), "c04.py"))
_m = importlib.util.module_from_spec(_spec)
_spec.loader.exec_module(_m)
P = "github.com/tochemey/goakt/v4/actor."
SUB = {"(*" + P + "PID).dispatchOne": P + "vC01_dispatchOne",
       "(*" + P + "dispatcher).schedule": P + "vC01_schedule",
       "(*" + P + "worker).reschedule": P + "vC01_reschedule"}
CHECK = dict(_m.CHECK)
CHECK["id"] = "C03"
CHECK["harness"] = ["actor/zz_verif_c04.go", "actor/zz_verif_c01.go"]
CHECK["entries"] = list(_m.CHECK["entries"]) + [
    {"fn": P + "vC02_quiescence", "replay": "model-only", "cover_optional": ("pending-at-quiescence",),
     "opts": {"substitute": SUB, "feasibility": True, "unwind": 4}},
]
CHECK["stop"] = list(SUB.keys())
CHECK["explanation"] = ("per-sender FIFO: the mailbox scenario of C04 (2 producers, 1 consumer, solver-chosen interleavings) asserts that the two "
                        "messages of one sender are dequeued in send order for UnboundedMailbox, UnboundedSegmentedMailbox, NonBlockingBoundedMailbox and "
                        "UnboundedFairMailbox; the dispatch scenario of C02 asserts handling order through doReceive/runTurn. BoundedMailbox wraps the "
                        "third-party Workiva ring buffer (opaque): outside the claim. Stash order is C13.")
