P = "github.com/tochemey/goakt/v4/internal/cluster."
OTHER = "only NodeLeft and NodeJoined events are emitted by the membership handlers"
# in a single case of the split (first kinds fixed) most emission sites are unreachable; every one of them is reachable in the step entry
HIST_COVERS = ("joined", "joined-after-left", "left-on-timeout", "left-on-complete", "left-on-late-start", "left-on-late-notification")
HIST_UNREACH = (OTHER, "a NodeJoined event carries the NodeJoined type and a notified address", "the local node is never reported in a NodeJoined event",
                "NodeJoined is only emitted for a node whose arrival was notified", "at most one NodeJoined per node until the opposite event",
                "NodeJoined is emitted only once the latest node-join rebalance epoch has completed",
                "a NodeLeft event carries the NodeLeft type and a notified address", "the local node is never reported in a NodeLeft event",
                "NodeLeft is only emitted for a node whose departure was notified", "at most one NodeLeft per node until the opposite event",
                "NodeLeft is emitted only once the latest node-left rebalance epoch has completed, or on the node's timeout",
                "a departure notified while the node is not reported as left is recorded (or reported at once)",
                "a node that was reported as left, then as joined, and leaves again is recorded as a new departure",
                "a recorded departure is reported when its timeout fires", "a recorded departure is reported once the latest node-left rebalance epoch has completed")
CHECK = {
    "id": "C34",
    "packages": ["./internal/cluster"],
    "harness": ["internal/cluster/zz_verif_c34.go"],
    "entries": [
        {"fn": P + "vC34_init"},
        {"fn": P + "vC34_step", "cases": {"kind": [0, 1, 2, 3, 4]}, "may_be_unreachable": (OTHER,)},
        {"fn": P + "vC34_history3", "tiers": ("quick",), "cases": {"kind0": [0, 1, 2, 3, 4]}, "may_be_unreachable": HIST_UNREACH, "cover_optional": HIST_COVERS},
        {"fn": P + "vC34_history4", "tiers": ("thorough",), "cases": {"kind0": [0, 1, 2, 3, 4], "kind1": [0, 1, 2, 3, 4]}, "may_be_unreachable": HIST_UNREACH, "cover_optional": HIST_COVERS},
        {"fn": P + "vC34_redeparture"},
    ],
    "opts": {"unwind": 16, "select_precise": True, "birth_guard_stores": True, "map_range": "per_entry", "map_dedup": True, "feas_from_iter": 100,
             "substitute": {"(*github.com/tochemey/goakt/v4/discovery.Node).PeersAddress": P + "vC34_peersAddress"},
             "stub": ["(*" + P + "cluster).detectLeaderChangeLocked"]},
    "explanation": "",
    "bounds": {},
}
