P = "github.com/tochemey/goakt/v4/internal/cluster."
CHECK = {
    "id": "C34",
    "packages": ["./internal/cluster"],
    "harness": ["internal/cluster/zz_verif_c34.go"],
    "entries": [
        {"fn": P + "vC34_init"},
        {"fn": P + "vC34_step"},
        {"fn": P + "vC34_history2"},
        {"fn": P + "vC34_redeparture"},
    ],
    "opts": {"unwind": 16, "select_precise": True, "birth_guard_stores": True,
             "substitute": {"(*github.com/tochemey/goakt/v4/discovery.Node).PeersAddress": P + "vC34_peersAddress"},
             "stub": ["(*" + P + "cluster).detectLeaderChangeLocked"]},
    "explanation": "",
    "bounds": {},
}
