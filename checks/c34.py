P = "github.com/tochemey/goakt/v4/internal/cluster."
PEERS = {"(*github.com/tochemey/goakt/v4/discovery.Node).PeersAddress": P + "vC34_peersAddress"}
NODROP = dict(PEERS)
NODROP["(*" + P[:-1] + ".cluster).sendEventLocked"] = P + "vC34_sendNoDrop"
CHECK = {
    "id": "C34",
    "packages": ["./internal/cluster"],
    "harness": ["internal/cluster/zz_verif_c34.go"],
    "entries": [
        {"fn": P + "vC34_history2", "tiers": ("quick",)},
        {"fn": P + "vC34_history4", "tiers": ("quick",)},
        {"fn": P + "vC34_progress4", "tiers": ("quick",), "opts": {"substitute": NODROP}},
    ],
    "opts": {"unwind": 10, "substitute": PEERS},
    "explanation": "",
    "bounds": {},
}
