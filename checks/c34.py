P = "github.com/tochemey/goakt/v4/internal/cluster."
OTHER = "only NodeLeft and NodeJoined events are emitted by the membership handlers"
# in a single case of the split (first kinds fixed) most emission sites are unreachable; every one of them is reachable in the step entry
HIST_COVERS = ("joined", "joined-after-left", "left-on-timeout", "left-on-complete", "left-on-late-start", "left-on-late-notification")
HIST_UNREACH = (OTHER, "a NodeJoined event carries the NodeJoined type and a notified address", "the local node is never reported in a NodeJoined event",
                "NodeJoined is only emitted for a node whose arrival was notified", "at most one NodeJoined per node until the opposite event",
                "NodeJoined is emitted only once the latest node-join rebalance epoch has completed",
                "a NodeLeft event carries the NodeLeft type and a notified address", "the local node is never reported in a NodeLeft event",
                "NodeLeft is only emitted for a node whose departure was notified", "at most one NodeLeft per node until the opposite event",
                "NodeLeft is emitted only once the latest node-left rebalance epoch has completed, or on the node's timeout",
                "a departure notified while the node is not reported as left is recorded (or reported at once)",
                "a recorded departure is reported when its timeout fires", "a recorded departure is reported once the latest node-left rebalance epoch has completed")
CHECK = {
    "id": "C34",
    "packages": ["./internal/cluster"],
    "harness": ["internal/cluster/zz_verif_c34.go"],
    "entries": [
        {"fn": P + "vC34_init"},
        {"fn": P + "vC34_step", "cases": {"kind": [0, 1, 2, 3, 4]}, "may_be_unreachable": (OTHER,)},
        {"fn": P + "vC34_history3", "tiers": ("quick",), "cases": {"kind0": [0, 1, 2, 3, 4]}, "may_be_unreachable": HIST_UNREACH, "cover_optional": HIST_COVERS},
        {"fn": P + "vC34_history4", "tiers": ("thorough",), "cases": {"kind0": [0, 1, 2, 3, 4], "kind1": [0, 1, 2, 3, 4]}, "may_be_unreachable": HIST_UNREACH, "cover_optional": HIST_COVERS},
        {"fn": P + "vC34_redeparture"},
    ],
    "opts": {"unwind": 16, "select_precise": True, "birth_guard_stores": True, "map_range": "per_entry", "map_dedup": True, "feas_from_iter": 100,
             "substitute": {"(*github.com/tochemey/goakt/v4/discovery.Node).PeersAddress": P + "vC34_peersAddress"},
             "stub": ["(*" + P + "cluster).detectLeaderChangeLocked"]},
    "timeout_ms": {"quick": 300000, "thorough": 1800000},
    "explanation": "internal/cluster/cluster.go trackNodeJoinEvent, trackNodeLeftEvent, emitOverdueNodeLeft, processRebalanceStart, processRebalanceComplete, assign{Join,Left}EpochLocked, "
                   "emitPending{Join,Left}ForEpochLocked, emitNode{Left,Joined}Locked and sendEventLocked (real non-blocking channel send) are executed symbolically on a real cluster struct. "
                   "(1) vC34_step: ONE arbitrary notification (kind in {node-join, node-left, rebalance-start(reason, epoch, node), rebalance-complete(epoch), node-left timeout}; one job per kind) from an ARBITRARY "
                   "state of the ten bookkeeping maps/sets/fields and of the reference monitor that satisfies a 12-clause representation invariant; obligations: the monitor's rules for every emitted event "
                   "(never the local node; only notified nodes; at most one NodeLeft/NodeJoined per node until the opposite event (notification or emission); NodeLeft only in the node's timeout step or once the latest "
                   "node-left rebalance epoch has completed, same for NodeJoined with node-join epochs; a recorded departure IS reported in those steps) and the invariant again afterwards; vC34_init: the invariant holds initially "
                   "=> histories of any length over the node/epoch domain. (2) vC34_history3/4: every history of 3 (thorough 4) notifications from the real initial state against the same monitor (first kind(s) split into jobs). "
                   "(3) vC34_redeparture: a peer that left, rejoined and leaves again is reported again (the history that failed before fix b6ef16c). Substituted: discovery.Node.PeersAddress (returns the harness node's real value 'h0:1'; net.JoinHostPort is outside the encoder), "
                   "the two goset filters are a harness set type (map-backed Add/Contains/Remove); auto-stubbed: detectLeaderChangeLocked (leader-change events are not part of the property), time.AfterFunc (the timeout is a "
                   "harness-driven step), time.UnixMilli. handleClusterEvent's JSON decoding is not executed (typed handlers are called).",
    "bounds": {"nodes": "local node + 3 peers (4 addresses)", "epochs": "1..3", "reasons": "node-left, node-join, other",
               "inductive step": "1 notification from any invariant state", "quick": {"history": 3}, "thorough": {"history": 4},
               "event channel": "capacity 8 (step) / K (history): never full, so the documented drop-on-full path is outside the claim"},
    "assumptions": ["engine options select_precise (a non-blocking send on the event channel succeeds exactly when there is room; no concurrent reader), birth_guard_stores, map_range=per_entry, map_dedup",
                    "map iteration order is insertion order (the emitted SET of events per step does not depend on it; only the order inside one step does)",
                    "the 'epoch covering a departure' is the code's own rule: the most recently first-seen node-left rebalance start; an earlier, already completed epoch therefore releases a later departure at once (reported to the lead as an observation, not asserted)"],
}
