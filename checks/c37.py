M = "github.com/tochemey/goakt/v4/"
P = M + "internal/codec."
SUBST = {
    M + "supervisor.errorType": M + "supervisor.vC37_errorType",
    "google.golang.org/protobuf/types/known/durationpb.New": P + "vC37_durNew",
    "(*google.golang.org/protobuf/types/known/durationpb.Duration).AsDuration": P + "vC37_durAs",
    "sort.Slice": P + "vC37_sortSlice",
}
CHECK = {
    "id": "C37",
    "packages": ["./internal/codec", "./supervisor", "./actor"],
    "harness": ["internal/codec/zz_verif_c37.go", "supervisor/zz_verif_c37.go", "actor/zz_verif_c37.go"],
    "entries": [
        {"fn": P + "vC37_supervisor", "cases_quick": {"types": [2], "shape": list(range(2 * (1 + 2 + 4)))}, "cases_thorough": {"types": [5], "shape": list(range(2 * (1 + 5 + 25)))},
         "cover_optional": ("any-error", "two-typed-directives")},
        {"fn": P + "vC37_supervisor_nil"},
        {"fn": P + "vC37_passivation"},
        {"fn": P + "vC37_reentrancy"},
        {"fn": M + "actor.vC37_relocation", "opts": {"stub": [M + "internal/types.Name"]}},
        {"fn": M + "actor.vC37_spawnOn", "opts": {"stub": [M + "internal/types.Name"]}},
    ],
    "stop": ["(*" + M + "actor.actorSystem).Spawn", "(*" + M + "actor.actorSystem).spawnOnDatacenter", M + "actor.newRemotePID"],
    "timeout_ms": {"quick": 170000, "thorough": 1500000},
    "opts": {"unwind": 16, "substitute": SUBST, "birth_guard_stores": True, "map_range": "per_entry", "map_dedup": True, "feas_from_iter": 100},
    "explanation": "",
    "bounds": {},
}
