M = "github.com/tochemey/goakt/v4/"
P = M + "internal/codec."
SUBST = {
    M + "supervisor.errorType": M + "supervisor.vC37_errorType",
    "google.golang.org/protobuf/types/known/durationpb.New": P + "vC37_durNew",
    "(*google.golang.org/protobuf/types/known/durationpb.Duration).AsDuration": P + "vC37_durAs",
    "sort.Slice": P + "vC37_sortSlice",
}
CHECK = {
    "id": "C37",
    "packages": ["./internal/codec", "./supervisor", "./actor"],
    "harness": ["internal/codec/zz_verif_c37.go", "supervisor/zz_verif_c37.go", "actor/zz_verif_c37.go"],
    "entries": [
        {"fn": P + "vC37_supervisor", "cases_quick": {"types": [2], "shape": list(range(2 * (1 + 2 + 4)))}, "cases_thorough": {"types": [5], "shape": list(range(2 * (1 + 5 + 25)))},
         "cover_optional": ("any-error", "two-typed-directives")},
        {"fn": P + "vC37_supervisor_nil"},
        {"fn": P + "vC37_passivation"},
        {"fn": P + "vC37_reentrancy"},
        {"fn": M + "actor.vC37_relocation", "opts": {"stub": [M + "internal/types.Name"]}},
        {"fn": M + "actor.vC37_spawnOn", "opts": {"stub": [M + "internal/types.Name"]}},
    ],
    "stop": ["(*" + M + "actor.actorSystem).Spawn", "(*" + M + "actor.actorSystem).spawnOnDatacenter", M + "actor.newRemotePID"],
    "timeout_ms": {"quick": 300000, "thorough": 1800000},
    "opts": {"unwind": 16, "substitute": SUBST, "birth_guard_stores": True, "map_range": "per_entry", "map_dedup": True, "feas_from_iter": 100},
    "explanation": "(1) internal/codec: EncodeSupervisor/DecodeSupervisor (+ encode/decodeSupervisorStrategy/Directive), supervisor.NewSupervisor and its options, Supervisor.Rules/Directive/AnyErrorDirective/"
                   "SetDirectiveByType, xsync.Map, the generated internalpb getters: every supervisor a user can build with WithStrategy, WithRetry(any uint32, any int64), 0..2 WithDirective rules over a set of "
                   "error types (incl. the two defaults being overridden), WithAnyErrorDirective, WithExponentialBackoff(any, any, any) is encoded and decoded and compared observable by observable (strategy, retry budget, "
                   "retry window, directive per error type, any-error directive, number of rules, backoff triple); the SHAPE of the rule set is one job per shape, all values symbolic. EncodePassivationStrategy/Decode.. "
                   "(all three kinds, any duration / any int), EncodeReentrancy/DecodeReentrancy (all modes, any int maxInFlight, documented clamp to [0, 2^32-1]), nil cases. "
                   "(2) actor: the relocation wire end to end - spawn options -> newSpawnConfig -> the pid options configPID applies (transcribed) -> PID.toSerialize -> internalpb.Actor -> actorSystem.wireSpawnOptions -> "
                   "newSpawnConfig: supervisor, passivation, reentrancy, stashing, role (any 2-byte string or none), explicit init timeout (any int64), relocatable compared field by field. "
                   "(3) actor: actorSystem.SpawnOn with cluster placement on another member (harness cluster / remoting client): the remote.SpawnRequest handed to the remoting client carries every configured field. "
                   "Substituted: supervisor.errorType (reflect type name -> the same strings for the harness' error types), durationpb.New / Duration.AsDuration (exact inverse pair on int64, like the real pair, without the "
                   "64-bit division by 10^9), sort.Slice (insertion sort with the real less). Stubbed: types.Name (reflection). Outside: protobuf marshalling (identity on the in-memory message), "
                   "dependencies (registry + reflection), remoteclient.RemoteSpawn / remote_server RemoteSpawn handlers (their field conversions are the codec functions checked in (1)).",
    "bounds": {"error types": "quick 2 (PanicError, InternalError), thorough 5 (+ value-receiver custom, PanicNilError, pointer custom)", "typed rules": "0..2", "numbers": "full width (uint32 / int64 / int)",
               "role": "none or any 2-byte string", "shape split": "14 jobs (quick) / 62 jobs (thorough)"},
    "assumptions": ["engine options birth_guard_stores, map_range=per_entry, map_dedup", "map iteration order = insertion order (decode goes through a map, order-insensitive)"],
}
