P = "github.com/tochemey/goakt/v4/actor."
SUB = {"(*" + P + "PID).Tell": P + "vT_tell", "(*" + P + "PID).Equals": P + "vT_equals"}
CHECK = {
    "id": "C10",
    "packages": ["./actor"],
    "harness": ["actor/zz_verif_c10.go"],
    "entries": [
        {"fn": P + "vC10_step", "replay": "model-only", "cases": {"terminating": [0, 1, 2, 3]}},
    ],
    "opts": {"unwind": 8, "feas_from_iter": 4, "substitute": SUB, "map_range": "per_entry", "map_dedup": True},
    "stop": list(SUB.keys()),
    "explanation": 'Real code executed symbolically: tree.addRootNode/addNode/addWatcher/removeWatcher/watchers/watchees, PID.Watch/UnWatch (local arm), PID.freeWatchers, PID.IsRunning/setState, NewTerminated, remoteWatchRegistry.watchersFor (empty). State: root guardian with three children in an ARBITRARY watch relation (12 symbolic booleans, installed through the real addWatcher/removeWatcher), then one arbitrary Watch or UnWatch between two distinct actors (so operation sequences of any length are covered inductively), every actor in an arbitrary liveness state (running / stopped / suspended / stopping / passivating), then the chosen actor (one job per actor) runs freeWatchers, the notification step of doStop that every termination path goes through; it is run a second time to model a second termination path. Asserted: the tree relation equals the model in both directions; a running watcher in the relation receives exactly one Terminated naming the dead actor, a non-watcher (never watched or unwatched before) none, a non-running watcher none; nothing else is sent; notified pairs leave the relation; the second run notifies nobody. Substitutions: (*PID).Tell -> recorder; (*PID).Equals (strings.EqualFold on the two IDs) -> exact ID comparison (harness IDs are distinct lower-case constants).',
    "bounds": {"actors": "root + 3 children", "watch relation": "any subset of the 12 ordered pairs", "operations": "1 arbitrary Watch/UnWatch from an arbitrary relation (inductive step)", "terminating actor": "each of the 4 (case split)"},
    "assumptions": ["remote watchers and the Mode-C extension (UnWatch or Watch racing freeWatchers) are outside the claim: a Watch that lands after freeWatchers took its snapshot is never notified (observation, not asserted)",
                    "map iteration order = insertion order"],
}
