P = "github.com/tochemey/goakt/v4/actor."
SUB = {"(*" + P + "PID).Tell": P + "vT_tell", "(*" + P + "PID).Equals": P + "vT_equals"}
CHECK = {
    "id": "C10",
    "packages": ["./actor"],
    "harness": ["actor/zz_verif_c10.go"],
    "entries": [
        {"fn": P + "vC10_sequence", "replay": "model-only"},
    ],
    "opts": {"unwind": 8, "substitute": SUB},
    "stop": list(SUB.keys()),
    "explanation": "TODO",
    "bounds": {},
}
