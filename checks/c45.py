M = "github.com/tochemey/goakt/v4/"
P = M + "stream."
A = M + "actor."
SUB = {
    "(*" + A + "ReceiveContext).Tell": A + "vNet_tell",
    "(*" + A + "ReceiveContext).Shutdown": A + "vNet_shutdown",
    "(*" + A + "ReceiveContext).Unhandled": A + "vNet_unhandled",
    P + "newStageID": P + "vS_stageID",
    A + "Tell": A + "vNet_pkgTell",
}
KINDS = list(range(8))
CHECK = {
    "id": "C45",
    "packages": ["./stream", "./actor"],
    "harness": ["stream/zz_verif_c45.go", "stream/zz_verif_vstream.go", "actor/zz_verif_vnet.go"],
    "entries": [
        {"fn": P + "vC45_flowStep", "replay": "model-only", "cases": {"kind": KINDS}},
        {"fn": P + "vC45_sourceStep", "replay": "model-only", "cases": {"src": [0, 1]}},
        {"fn": P + "vC45_sinkStep", "replay": "model-only"},
        {"fn": P + "vC45_fusedStep", "replay": "model-only"},
        {"fn": P + "vC45_batchStep", "replay": "model-only"},
        {"fn": P + "vC45_batchHistory", "replay": "model-only"},
        {"fn": P + "vC45_parallel", "replay": "model-only", "cases": {"ordered": [0, 1]}},
    ],
    "opts": {"unwind": 8, "substitute": SUB},
    "stop": [k for k in SUB.keys() if "ReceiveContext" in k],
    "explanation": "TODO",
    "bounds": {},
}
