M = "github.com/tochemey/goakt/v4/"
P = M + "stream."
A = M + "actor."
SUB = {
    "(*" + A + "ReceiveContext).Tell": A + "vNet_tell",
    "(*" + A + "ReceiveContext).Shutdown": A + "vNet_shutdown",
    "(*" + A + "ReceiveContext).Unhandled": A + "vNet_unhandled",
    P + "newStageID": P + "vS_stageID",
    A + "Tell": A + "vNet_pkgTell",
}
KINDS = list(range(8))
CHECK = {
    "id": "C45",
    "packages": ["./stream", "./actor"],
    "harness": ["stream/zz_verif_c45.go", "stream/zz_verif_vstream.go", "actor/zz_verif_vnet.go"],
    "entries": [
        # kinds: 0 Map 1 Filter 2 FlatMap 3 TryMap 4 Scan 5 Deduplicate 6 Buffer 7 Flatten
        {"fn": P + "vC45_flowStep", "replay": "model-only", "cases_quick": {"kind": [0, 1, 2, 3]}, "cases_thorough": {"kind": KINDS}},
        {"fn": P + "vC45_sourceStep", "replay": "model-only", "cases": {"src": [0, 1]}},
        {"fn": P + "vC45_sinkStep", "replay": "model-only"},
        {"fn": P + "vC45_fusedStep", "replay": "model-only"},
        # deferred completion exists only once finding C45-1 is repaired (on the unrepaired tree that branch is unreachable)
        {"fn": P + "vC45_batchStep", "replay": "model-only", "cover_optional": ("completion-deferred",),
         "may_be_unreachable": ("the completion is held back only while elements wait for demand",)},
        {"fn": P + "vC45_batchHistory", "replay": "model-only", "cases_quick": {"script": [0, 1]}, "cases_thorough": {"script": [0, 1, 2, 3, 4, 5]}, "cover_optional": ("completion-deferred", "two-elements-in-one-step", "complete-after-two"),
         "may_be_unreachable": ("history: after upstream completed only missing demand delays the completion",)},
        {"fn": P + "vC45_parallelStep", "replay": "model-only", "cases": {"ordered": [0, 1]}, "cover_optional": ("resequenced-run", "held-back")},
    ],
    "opts": {"unwind": 8, "substitute": SUB},
    "timeout_ms": {"quick": 1500000, "thorough": 1800000},
    "stop": [k for k in SUB.keys() if "ReceiveContext" in k] + ["(*" + A + "PID).Shutdown"],
    "explanation": 'Per-stage one-step contracts (the fallback kernel named in DESIGN C45; the composed source->stages->sink BMC was not affordable: a 7-event history of ONE stage already ran >30 min here) plus one stage-local history. Real code executed symbolically: flowActor.Receive/tryFlushOutput/maybeRequestUpstream with the real transform closures built by Map, Filter, FlatMap, TryMap, Scan, Deduplicate, Buffer, Flatten (one job per kind); pullSourceActor.Receive/produce with the real pullFn of Of and Range; sinkActor.Receive/callOnComplete/PostStop with the real Collect closures; applyFusion + fusedFlowActor.Receive (TryMap fused with Filter); batchFlowActor[int].Receive/flush/maybeRequestUpstream (size trigger; one-step and scripted histories of 4-5 protocol-respecting messages from wiring); parallelMapActor[int,int].Receive/flushOrdered, container/heap and the real worker closure (ordered and unordered, 2 workers); queue.push/pop/len/empty. Each entry puts the stage into an ARBITRARY state satisfying a stated invariant (credit/demand ledgers, buffer contents, flags), delivers ONE arbitrary protocol message (request n / element / complete / error / cancel, elements only against outstanding credit) and asserts: emitted elements = first min(demand, pending) outputs of the reference list function, in order, consecutively numbered; ledgers; completion exactly when upstream completed and the buffer drained; a failing element => cancel upstream + that error downstream + stop; no stall (a live empty stage always has credit outstanding); invariant re-established. List semantics of a pipeline follows by composition under per-sender FIFO delivery (not itself encoded). Substitutions: ReceiveContext.Tell/Shutdown/Unhandled and actor.Tell -> recorders (harness/actor/zz_verif_vnet.go), stream.newStageID -> constant, ActorSystem.SpawnFromFunc/ScheduleOnce -> recorders (harness system), PID.Shutdown not traversed.',
    "bounds": {"InitialDemand": "1..4 (1..3 in the batch history), RefillThreshold in [0, InitialDemand)", "buffered outputs": "<= 3", "downstream demand": "<= 4", "request n": "1..4",
               "element values / user constants c,f,acc0": "any int", "FlatMap fan-out / Flatten slice": "<= 2", "Batch maxSize": "1..3 (1..2 in the history)", "batch history": "message-kind scripts REEC, REER (quick) + REERE, REECR, RERE, RRECR (thorough); sizes and values symbolic",
               "parallel": "2 workers, <= 2 results waiting in the heap, <= 2 in flight", "source": "<= 3 values, any already-consumed prefix; Range start any in (-2^62, 2^62)"},
    "assumptions": ["per-stage contracts; composition into pipelines (per-sender FIFO, dead letters after Shutdown) is argued, not encoded",
                    "timers (Batch maxWait, Throttle), overflow strategies, remote stages, channel/actor/tick/conn sources, Retry/Resume/Supervise strategies are outside the claim",
                    "recover() in the parallel worker is not modelled: user functions do not panic"],
}
