M = "github.com/tochemey/goakt/v4/"
R = M + "remote."
C = M + "internal/remoteclient."
A = M + "actor."
D = M + "internal/commands."
PB = "google.golang.org/protobuf/"
SUBST = {
    PB + "proto.MessageName": R + "VC25_messageName",
    "(" + PB + "proto.MarshalOptions).Size": R + "VC25_size",
    "(" + PB + "proto.MarshalOptions).MarshalAppend": R + "VC25_marshalAppend",
    PB + "proto.Unmarshal": R + "VC25_unmarshal",
    "(*" + PB + "reflect/protoregistry.Types).FindMessageByName": R + "VC25_findMessageByName",
    "reflect.TypeOf": R + "VC25_typeOf",
    "reflect.New": R + "VC25_reflectNew",
    "(reflect.Value).Interface": R + "VC25_valueInterface",
    "(reflect.Value).Elem": R + "VC25_valueElem",
}
DSUBST = {
    "(" + PB + "proto.MarshalOptions).MarshalAppend": D + "vC25_marshalAppend",
    PB + "proto.Unmarshal": D + "vC25_unmarshal",
    M + "internal/types.IsNil": D + "vC25_isNil",
}
MO = "model-only"
CHECK = {
    "id": "C25",
    "packages": ["./remote", "./internal/remoteclient", "./actor", "./internal/commands"],
    "harness": ["remote/zz_verif_c25.go", "internal/remoteclient/zz_verif_c25.go", "actor/zz_verif_c25.go", "internal/commands/zz_verif_c25.go"],
    "entries": [
        {"fn": R + "vC25_proto_roundtrip", "replay": MO, "cases": {"nameLen": [1, 3], "payloadLen": [0, 2]}},
        {"fn": R + "vC25_proto_reject", "replay": MO},
        {"fn": R + "vC25_proto_robust", "replay": MO, "cases": {"maxLen": [16]}},
        {"fn": R + "vC25_cbor_roundtrip", "replay": MO, "cases": {"kind": [0, 1], "payloadLen": [0, 2]}, "cover_optional": ("struct", "primitive")},
        {"fn": R + "vC25_json_roundtrip", "replay": MO, "cases": {"kind": [0, 1], "payloadLen": [0, 2]}, "cover_optional": ("struct", "primitive")},
        {"fn": R + "vC25_cbor_robust", "replay": MO, "cases": {"maxLen": [20]}},
        {"fn": R + "vC25_json_robust", "replay": MO, "cases": {"maxLen": [20]}},
        {"fn": R + "vC25_unregistered", "replay": MO, "cases": {"json": [0, 1]}},
        {"fn": C + "vC25_frameTypeName", "replay": MO, "cases": {"maxLen": [16]}},
        {"fn": C + "vC25_dispatch_serialize", "replay": MO, "cases_quick": {"order": [0, 3, 5, 6], "kind": [0, 1, 2, 3]}, "cases_thorough": {"order": [0, 1, 2, 3, 4, 5, 6, 7], "kind": [0, 1, 2, 3]}},
        {"fn": C + "vC25_dispatch_roundtrip", "replay": MO, "cases_quick": {"order": [0, 3, 5, 6], "kind": [0, 1, 2], "producer": [0, 1, 2]},
         "cases_thorough": {"order": [0, 1, 2, 3, 4, 5, 6, 7], "kind": [0, 1, 2], "producer": [0, 1, 2]},
         "cover_optional": ("producer-refuses", "proto", "struct", "primitive", "name-collision", "end")},
        {"fn": C + "vC25_dispatch_robust", "replay": MO, "cases_quick": {"order": [0, 5, 6], "maxLen": [16]}, "cases_thorough": {"order": [0, 1, 2, 3, 4, 5, 6, 7], "maxLen": [24]}},
        {"fn": C + "vC25_dispatch_empty", "replay": MO},
        {"fn": C + "vC25_resolve", "replay": MO, "cases": {"userEntries": [0, 1, 2], "message": [0, 1, 2]}, "cover_optional": ("none", "user-entry-wins")},
        {"fn": A + "vC25_terminated_roundtrip", "cases": {"withPath": [0, 1]}, "cover_optional": ("no-path", "with-path"), "opts": {"substitute": {}, "itoa_digits": 4}},
        {"fn": A + "vC25_terminated_robust", "cases": {"maxLen": [24]}, "opts": {"substitute": {}}},
        {"fn": A + "vC25_poisonpill", "opts": {"substitute": {}}},
        {"fn": D + "vC25_delivery_roundtrip", "replay": MO, "cases": {"command": [0, 1, 2, 3, 4]}, "cover_optional": ("chunked",), "opts": {"substitute": DSUBST}},
        {"fn": D + "vC25_delivery_decode_any", "replay": MO, "cases": {"command": [0, 1, 2, 3, 4, 5]}, "cover_optional": ("accepted", "rejected"), "opts": {"substitute": DSUBST}},
        {"fn": D + "vC25_delivery_reject", "replay": MO, "opts": {"substitute": DSUBST}},
    ],
    "opts": {"unwind": 64, "substitute": SUBST, "sym_slice_cap": 32},
    "explanation": "",
    "bounds": {},
    "assumptions": [],
    "timeout_ms": {"quick": 900000, "thorough": 1800000},
}
