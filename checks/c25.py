M = "github.com/tochemey/goakt/v4/"
R = M + "remote."
C = M + "internal/remoteclient."
A = M + "actor."
D = M + "internal/commands."
PB = "google.golang.org/protobuf/"
SUBST = {
    PB + "proto.MessageName": R + "VC25_messageName",
    "(" + PB + "proto.MarshalOptions).Size": R + "VC25_size",
    "(" + PB + "proto.MarshalOptions).MarshalAppend": R + "VC25_marshalAppend",
    PB + "proto.Unmarshal": R + "VC25_unmarshal",
    "(*" + PB + "reflect/protoregistry.Types).FindMessageByName": R + "VC25_findMessageByName",
    "reflect.TypeOf": R + "VC25_typeOf",
    "reflect.New": R + "VC25_reflectNew",
    "(reflect.Value).Interface": R + "VC25_valueInterface",
    "(reflect.Value).Elem": R + "VC25_valueElem",
}
DSUBST = {
    "(" + PB + "proto.MarshalOptions).MarshalAppend": D + "vC25_marshalAppend",
    PB + "proto.Unmarshal": D + "vC25_unmarshal",
    M + "internal/types.IsNil": D + "vC25_isNil",
}
MO = "model-only"
CHECK = {
    "id": "C25",
    "packages": ["./remote", "./internal/remoteclient", "./actor", "./internal/commands"],
    "harness": ["remote/zz_verif_c25.go", "internal/remoteclient/zz_verif_c25.go", "actor/zz_verif_c25.go", "internal/commands/zz_verif_c25.go"],
    "entries": [
        {"fn": R + "vC25_proto_roundtrip", "replay": MO, "cases_quick": {"nameLen": [1, 3], "payloadLen": [0, 2]}, "cases_thorough": {"nameLen": [1, 2, 3, 4, 5], "payloadLen": [0, 1, 2, 3, 4]}},
        {"fn": R + "vC25_proto_reject", "replay": MO},
        {"fn": R + "vC25_proto_robust", "replay": MO, "cases_quick": {"maxLen": [16]}, "cases_thorough": {"maxLen": [24]}},
        {"fn": R + "vC25_cbor_roundtrip", "replay": MO, "cases": {"kind": [0, 1], "payloadLen": [0, 2]}, "cover_optional": ("struct", "primitive")},
        {"fn": R + "vC25_json_roundtrip", "replay": MO, "cases": {"kind": [0, 1], "payloadLen": [0, 2]}, "cover_optional": ("struct", "primitive")},
        {"fn": R + "vC25_cbor_robust", "replay": MO, "cases_quick": {"maxLen": [20]}, "cases_thorough": {"maxLen": [28]}},
        {"fn": R + "vC25_json_robust", "replay": MO, "cases_quick": {"maxLen": [20]}, "cases_thorough": {"maxLen": [28]}},
        {"fn": R + "vC25_unregistered", "replay": MO, "cases": {"json": [0, 1]}},
        {"fn": C + "vC25_frameTypeName", "replay": MO, "cases_quick": {"maxLen": [16]}, "cases_thorough": {"maxLen": [32]}},
        {"fn": C + "vC25_dispatch_serialize", "replay": MO, "cases_quick": {"order": [0, 3, 5, 6], "kind": [0, 1, 2, 3]}, "cases_thorough": {"order": [0, 1, 2, 3, 4, 5, 6, 7], "kind": [0, 1, 2, 3]}},
        {"fn": C + "vC25_dispatch_roundtrip", "replay": MO, "cases_quick": {"order": [0, 3, 5, 6], "combo": [0, 1, 2, 3, 4, 5, 6]},
         "cases_thorough": {"order": [0, 1, 2, 3, 4, 5, 6, 7], "combo": [0, 1, 2, 3, 4, 5, 6]},
         "cover_optional": ("producer-refuses", "proto", "struct", "primitive", "name-collision", "end")},
        {"fn": C + "vC25_dispatch_robust", "replay": MO, "cases_quick": {"order": [0, 5, 6], "maxLen": [16]}, "cases_thorough": {"order": [0, 1, 2, 3, 4, 5, 6, 7], "maxLen": [24]}},
        {"fn": C + "vC25_dispatch_empty", "replay": MO},
        {"fn": C + "vC25_resolve", "replay": MO, "cases": {"userEntries": [0, 1, 2], "message": [0, 1, 2]}, "cover_optional": ("none", "user-entry-wins")},
        {"fn": A + "vC25_terminated_roundtrip", "cases": {"withPath": [0, 1]}, "cover_optional": ("no-path", "with-path"), "opts": {"substitute": {}, "itoa_digits": 4}},
        {"fn": A + "vC25_terminated_robust", "cases_quick": {"maxLen": [24]}, "cases_thorough": {"maxLen": [28]}, "opts": {"substitute": {}}},
        {"fn": A + "vC25_poisonpill", "opts": {"substitute": {}}},
        {"fn": D + "vC25_delivery_roundtrip", "replay": MO, "cases": {"command": [0, 1, 2, 3, 4]}, "cover_optional": ("chunked",), "opts": {"substitute": DSUBST}},
        {"fn": D + "vC25_delivery_decode_any", "replay": MO, "cases": {"command": [0, 1, 2, 3, 4, 5]}, "cover_optional": ("accepted", "rejected"), "opts": {"substitute": DSUBST}},
        {"fn": D + "vC25_delivery_reject", "replay": MO, "opts": {"substitute": DSUBST}},
    ],
    "opts": {"unwind": 64, "substitute": SUBST, "sym_slice_cap": 32},
    "explanation": "Framing + dispatch kernel. Executed from real SSA: remote.ProtoSerializer/CBORSerializer/JSONSerializer Serialize/Deserialize and isBuiltinPrimitive, internal/net.FindMessageType, internal/remoteclient frameTypeName, newSerializerDispatch, serializerDispatch.Serialize/Deserialize, client.resolveSerializer, actor.terminatedSerializer and poisonPillSerializer (with address.New/String/Parse, newPath), commands.DeliverySerializer.Serialize/Deserialize with every command's validate()/constructor and the generated internalpb getters. Checked: (1) per serializer, Deserialize(Serialize(m)) gives the same type name and payload bytes (struct -> pointer to equal struct, built-in primitive -> equal value), the frame has the documented layout, and a value the serializer does not support (nil, unregistered type, non-proto) yields an error and NO bytes; (2) Deserialize on an ARBITRARY buffer of symbolic length never panics (all implicit panics are obligations), rejects truncated frames with the documented error and on success hands exactly the payload region to the payload codec; (3) under dispatch, for every registration order of the three serializers (and without a protobuf serializer): Serialize uses the first registered serializer that accepts the value and returns an error and no bytes when none does; a frame produced by serializer X decodes to an equal value - including when the non-protobuf type name collides with a registered protobuf message name (fast path fails, ordered loop takes over); arbitrary bytes never panic; (4) resolveSerializer against the DOCUMENTED order (exact concrete type, then first interface match, registration order within a category): fails on the unchanged tree = known finding C25-1; (5) Terminated/PoisonPill/delivery commands round-trip, refuse each other's frames and foreign values, and accept exactly their documented layout on arbitrary bytes; a delivery command is serialized iff valid and ANY envelope protobuf could decode (any command kind, absent sub-messages) never panics and yields only valid commands. Substituted (trusted contract, part of the claim): the payload codecs - protobuf (MessageName/Size/MarshalAppend/Unmarshal/registry), cbor Enc/DecMode, sonic API - are inverse pairs on payload bytes that reject each other's output (one-byte format tag); reflect (TypeOf, New, Value.Interface/Elem, Type.Kind/String/PkgPath/Elem/Implements) over a harness type universe {protobuf message, registered struct, unregistered struct, string}; the types registry (two registered names); for the delivery serializer protobuf carries the envelope as is and types.IsNil is a reflection-free equivalent.",
    "bounds": {'payload': '0..2 bytes, contents symbolic', 'protobuf name': "1..3 bytes (6 in the dispatch entries so that it can collide with the type name 'string')", 'arbitrary input': 'symbolic length <= 16 (proto, frameTypeName, dispatch) / 20 (cbor, json) / 24 (Terminated) / 10 (PoisonPill, delivery)', 'dispatch': 'registration orders: quick 4 of the 8 (6 permutations + 2 without protobuf), thorough all 8; the 5 matching (value kind, producer) pairs and 2 mismatches', 'resolveSerializer': 'default proto.Message entry + 0..2 user entries out of {concrete proto type, interface, concrete struct type} in any order; 3 message types', 'Terminated': 'path name 2 symbolic alphanumeric bytes, host/system/port fixed, any int64 timestamp', 'delivery': 'string fields <= 2 bytes, any int64 sequence numbers, payload <= 2 bytes'},
    "assumptions": ["value-level equality of what the payload codecs decode (protobuf, CBOR, JSON libraries) is trusted, as are reflect's type names", "the three payload codecs reject each other's output", 'slice-to-array conversions are materialised as copies', 'remote.Config.Serializer (same single loop over a Go map, random order) is not executed: map iteration order is not modelled'],
    "timeout_ms": {"quick": 900000, "thorough": 1800000},
}
