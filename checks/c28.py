P = "github.com/tochemey/goakt/v4/internal/net."
C = lambda n: "(*" + P + "Client)." + n
SUB = {C("dial"): P + "vC28_dial", C("marshalProtoWithContext"): P + "vC28_marshal", P + "readProtoFrame": P + "vC28_readFrame",
       C("unmarshalProtoResponse"): P + "vC28_unmarshal", "(*" + P + "FramePool).Put": P + "vC28_framePut",
       "(*" + P + "vC28Conn).Write": P + "vC28_write"}
CHECK = {
    "id": "C28",
    "packages": ["./internal/net"],
    "harness": ["internal/net/zz_verif_c28.go"],
    "entries": [
        {"fn": P + "vC28_single", "replay": "model-only"},
        {"fn": P + "vC28_batch", "replay": "model-only"},
        {"fn": P + "vC28_pool", "replay": "model-only", "opts": {"rounds": 3, "unwind_mode": "assume", "feasibility": False}, "cover_optional": ("reused",)},
    ],
    "opts": {"unwind": 5, "substitute": SUB},
    "stop": list(SUB.keys()),
    "explanation": "net.Client.Get/Put/Discard/SendProto/SendProtoWithMetadata/SendBatchProto executed symbolically with a ghost connection (per-connection FIFO of unread responses; the fake server answers request id i with response id i) and a symbolic failure at every dial/marshal/write/read/unmarshal step; dialing, framing and the socket are substituted. Plus Get/Put under solver-chosen interleavings of two callers.",
    "bounds": {"requests": "2 consecutive single requests; one batch of 2", "connections": "<= 3", "failures": "any subset of I/O steps"},
}
