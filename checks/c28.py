P = "github.com/tochemey/goakt/v4/internal/net."
C = lambda n: "(*" + P + "Client)." + n
SUB = {C("dial"): P + "vC28_dial", C("marshalProtoWithContext"): P + "vC28_marshal", P + "readProtoFrame": P + "vC28_readFrame",
       C("unmarshalProtoResponse"): P + "vC28_unmarshal", "(*" + P + "FramePool).Put": P + "vC28_framePut",
       "(*" + P + "vC28Conn).Write": P + "vC28_write"}
R = "github.com/tochemey/goakt/v4/internal/remoteclient."
RSUB = {"(*" + P + "FramePool).Get": R + "vC28p_get", "(*" + P + "FramePool).Put": R + "vC28p_put",
        "(*" + P + "ProtoSerializer).MarshalBinaryTo": R + "vC28p_marshalTo", "(*" + R + "client).resolveSerializer": R + "vC28p_resolve",
        "(*" + R + "client).NetClient": R + "vC28p_netClient", C("SendProto"): R + "vC28p_send"}
CHECK = {
    "id": "C28",
    "packages": ["./internal/net", "./internal/remoteclient"],
    "harness": ["internal/net/zz_verif_c28.go", "internal/remoteclient/zz_verif_c28.go"],
    "entries": [
        {"fn": P + "vC28_single", "replay": "model-only"},
        {"fn": P + "vC28_batch", "replay": "model-only"},
        {"fn": P + "vC28_pool", "replay": "model-only", "opts": {"rounds": 3, "unwind_mode": "assume", "feasibility": False}, "cover_optional": ("reused",)},
        # the remoting client above the connection pool: RemoteAsk's pooled payload frame must stay untouched until the request is written
        {"fn": R + "vC28_payload", "replay": "model-only", "opts": {"substitute": RSUB, "rounds": 3, "unwind_mode": "assume", "feasibility": False}, "cover_optional": ("both-frames-returned",)},
    ],
    "opts": {"unwind": 5, "substitute": SUB},
    "stop": list(SUB.keys()),
    "explanation": "net.Client.Get/Put/Discard/SendProto/SendProtoWithMetadata/SendBatchProto executed symbolically with a ghost connection (per-connection FIFO of unread responses; the fake server answers request id i with response id i) and a symbolic failure at every dial/marshal/write/read/unmarshal step; dialing, framing and the socket are substituted. Plus Get/Put under solver-chosen interleavings of two callers.",
    "bounds": {"requests": "2 consecutive single requests; one batch of 2", "connections": "<= 3", "failures": "any subset of I/O steps"},
}
CHECK["explanation"] += " vC28_payload: two concurrent client.RemoteAsk calls (real serializePayload, the deferred payloadPool.Put, envelope construction, enrichContext) with the frame pool modelled as 'any returned frame may be handed out again', the protobuf framer reduced to a one-byte tag and SendProto substituted by the wire: the request written for an ask must carry that ask's own payload."
