P = "github.com/tochemey/goakt/v4/client."
CHECK = {
    "id": "C22",
    "packages": ["./client"],
    "harness": ["client/zz_verif_c22.go"],
    "entries": [
        {"fn": P + "vC22_roundrobin"},
        {"fn": P + "vC22_random", "replay": "model-only"},
        {"fn": P + "vC22_leastload2", "tiers": ("quick",)},
        {"fn": P + "vC22_leastload3", "tiers": ("thorough",)},
    ],
    "opts": {"unwind": 6},
    "explanation": "RoundRobin.Next/Set, Random.Next, LeastLoad.Next (with slices.SortStableFunc from its real SSA) executed symbolically: counter is an arbitrary uint32, 1..4 nodes, weights arbitrary in range; implicit panics (index out of range) are obligations.",
    "bounds": {"nodes": "round-robin/random 1..4; least-load 1..2 (quick) / 1..3 (thorough)", "counter": "any uint32", "weights": "any float64 bit pattern (min-weight clause only when no weight is NaN)", "rand.IntN": "arbitrary value in [0,n)"},
}
