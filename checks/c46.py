M = "github.com/tochemey/goakt/v4/"
P = M + "stream."
A = M + "actor."
SUB = {
    "(*" + A + "ReceiveContext).Tell": A + "vNet_tell",
    "(*" + A + "ReceiveContext).Shutdown": A + "vNet_shutdown",
    "(*" + A + "ReceiveContext).Unhandled": A + "vNet_unhandled",
    A + "Tell": A + "vNet_pkgTell",
    P + "newStageID": P + "vS_stageID",
    P + "spawnSubPipeline": P + "vC46_spawn",
}
CHECK = {
    "id": "C46",
    "packages": ["./stream", "./actor"],
    "harness": ["stream/zz_verif_c46.go", "stream/zz_verif_vstream.go", "actor/zz_verif_vnet.go"],
    "entries": [
        {"fn": P + "vC46_hubStep", "replay": "model-only", "cases": {"hub": [0, 1, 2]}},
        {"fn": P + "vC46_slotStep", "replay": "model-only", "cases": {"hub": [0, 1, 2]}},
        {"fn": P + "vC46_mergeStep", "replay": "model-only", "cases": {"concat": [0, 1]}},
        {"fn": P + "vC46_zipStep", "replay": "model-only"},
    ],
    "opts": {"unwind": 8, "substitute": SUB, "go_inline": True},
    "stop": [k for k in SUB.keys() if "ReceiveContext" in k] + [P + "spawnSubPipeline"],
    "explanation": 'Per-actor one-step contracts for every junction (fallback kernel of DESIGN C46). Real code executed symbolically: Broadcast/Balance/Partition constructors, sharedBroadcast/sharedBalance/sharedPartition.registerSlot, broadcast/balance/partitionSlotActor.Receive and broadcast/balance/partitionHubActor.Receive/maybePull/minDemand/totalDemand (2 branches); Merge/Concat/Zip constructors, mergeSourceActor, concatSourceActor (spawnNext), zipNSourceActor (tryEmit/allReady) with 2 inputs, and the internal sink built by makeMergeSinkDesc (real sinkActor + closures). Each entry wires the actors through their real stageWire arms, puts the actor into an arbitrary state satisfying a stated invariant, delivers one arbitrary protocol message and asserts the statement-level relation: Broadcast: every active branch gets the element once; Balance: exactly one branch, the next with demand in round-robin order; Partition: the branch fn selects (out-of-range/cancelled: dropped, as documented); hubs pull exactly what branches can absorb and in-flight elements stay covered by branch demand; branch heads relay demand/elements/termination unchanged; Merge/Concat: elements leave in arrival order (hence per-source order), Concat starts source i+1 exactly when source i reported done, completion once all sources are done and the buffer drained; Zip: positional pairs, min(demand, shortest buffer) tuples, completion when a finished input has nothing left. Substitutions: ReceiveContext.Tell/Shutdown/Unhandled, actor.Tell -> recorders; spawnSubPipeline -> recorder of the stage list (the harness instantiates the junction-made hub / internal sink from it); newStageID -> constant; go statements inlined.',
    "bounds": {"branches / inputs": 2, "per-branch demand": "0..3", "pending upstream": "0..3", "slotDemand n": "1..3", "buffered elements": "<= 2 per buffer", "downstream demand": "<= 3", "values": "any int"},
    "assumptions": ["per-actor contracts; the composition (sub-pipelines feeding the junction, per-sender FIFO) is argued, not encoded",
                    "go statements run inline; MergeLatest/MergeSequence/MergePreferred/Combine/Unzip/FlatMapConcat are outside the claim"],
}
