M = "github.com/tochemey/goakt/v4/"
P = M + "stream."
A = M + "actor."
SUB = {
    "(*" + A + "ReceiveContext).Tell": A + "vNet_tell",
    "(*" + A + "ReceiveContext).Shutdown": A + "vNet_shutdown",
    "(*" + A + "ReceiveContext).Unhandled": A + "vNet_unhandled",
    A + "Tell": A + "vNet_pkgTell",
    P + "newStageID": P + "vS_stageID",
    P + "spawnSubPipeline": P + "vC46_spawn",
}
CHECK = {
    "id": "C46",
    "packages": ["./stream", "./actor"],
    "harness": ["stream/zz_verif_c46.go", "stream/zz_verif_vstream.go", "actor/zz_verif_vnet.go"],
    "entries": [
        {"fn": P + "vC46_hubStep", "replay": "model-only", "cases": {"hub": [0, 1, 2]}},
        {"fn": P + "vC46_slotStep", "replay": "model-only", "cases": {"hub": [0, 1, 2]}},
        {"fn": P + "vC46_mergeStep", "replay": "model-only", "cases": {"concat": [0, 1]}},
        {"fn": P + "vC46_zipStep", "replay": "model-only"},
    ],
    "opts": {"unwind": 8, "substitute": SUB, "go_inline": True},
    "stop": [k for k in SUB.keys() if "ReceiveContext" in k] + [P + "spawnSubPipeline"],
    "explanation": "TODO",
    "bounds": {},
}
