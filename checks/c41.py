M = "github.com/tochemey/goakt/v4/"
P = M + "actor."
SUB = {
    "time.Now": P + "vC41_now",
    "(*" + P + "ReceiveContext).Response": P + "vC41_response",
    "(*" + P + "ReceiveContext).Tell": P + "vC41_tell",
    P + "pathToAddress": P + "vC41_pathToAddress",
    M + "internal/ddata.DecodeCRDT": P + "vC41_decode",
    M + "internal/ddata.EncodeCRDT": P + "vC41_encode",
}
CHECK = {
    "id": "C41",
    "packages": ["./actor"],
    "harness": ["actor/zz_verif_rd.go", "actor/zz_verif_c41.go"],
    "entries": [
        {"fn": P + "vC41_init", "replay": "model-only"},
        {"fn": P + "vC41_step", "replay": "model-only", "cases": {"kind": [0, 1, 2, 3, 4, 5, 6, 7, 8]},
         "cover_optional": ("get-tombstoned", "expired", "kept", "tombstoned"),
         # unreachable is the point for the first one: outside the prune tick no tombstone ever disappears
         "may_be_unreachable": ("a tombstone is removed only by the prune tick, and only once now - deletedAt > TombstoneTTL",
                                "the prune tick keeps every tombstone that has not expired", "Get of a tombstoned key exposes no value")},
    ],
    "opts": {"unwind": 8, "substitute": SUB},
    "stop": [k for k in SUB.keys() if not k.startswith("time.")],
    "timeout_ms": {"quick": 400000, "thorough": 1800000},
    "explanation": "TODO",
    "bounds": {},
}
