M = "github.com/tochemey/goakt/v4/"
P = M + "actor."
SUB = {
    "time.Now": P + "vC41_now",
    "(*" + P + "ReceiveContext).Response": P + "vC41_response",
    "(*" + P + "ReceiveContext).Tell": P + "vC41_tell",
    P + "pathToAddress": P + "vC41_pathToAddress",
    M + "internal/ddata.DecodeCRDT": P + "vC41_decode",
    M + "internal/ddata.EncodeCRDT": P + "vC41_encode",
}
CHECK = {
    "id": "C41",
    "packages": ["./actor"],
    "harness": ["actor/zz_verif_rd.go", "actor/zz_verif_c41.go"],
    "entries": [
        {"fn": P + "vC41_init", "replay": "model-only"},
        {"fn": P + "vC41_step", "replay": "model-only", "cases": {"kind": [0, 1, 2, 3, 4, 5, 6, 7, 8]},
         "cover_optional": ("get-tombstoned", "expired", "kept", "tombstoned", "deleted-locally", "tombstone-received", "batch-tombstone-received"),
         # unreachable is the point for the first one: outside the prune tick no tombstone ever disappears
         "may_be_unreachable": ("a tombstone is removed only by the prune tick, and only once now - deletedAt > TombstoneTTL",
                                "the prune tick keeps every tombstone that has not expired", "Get of a tombstoned key exposes no value")},
    ],
    "opts": {"unwind": 8, "substitute": SUB},
    "stop": [k for k in SUB.keys() if not k.startswith("time.")],
    "timeout_ms": {"quick": 900000, "thorough": 2400000},
    "explanation": "One inductive step over the replicator. The real (*replicatorActor).Receive -> handleMessage is executed symbolically for one arbitrary message from an arbitrary state satisfying Inv = 'a tombstoned key has no value in the store', one job per message kind: "
                   "handleUpdate, handleGet (incl. coordinatedRead, targetCount, selectPeers), handleDelete (incl. coordinatedTombstone), handleDelta, handleProtoDelta/decodeDelta, handleProtoTombstone, handleFullState, handleIncomingBatch, handlePrune, plus trackKey, publishDelta/encodeDelta, coordinatedWrite, notifyChanged and the real codec.DecodeCRDTKey/EncodeCRDTKey and crdt.Config. "
                   "Pre-state: each of the keys k1,k2,k3 is absent, live (arbitrary value/version) or tombstoned (arbitrary deletedAt, local or remote deleter, key type remembered or not); TombstoneTTL is any positive duration; cross-DC buffering on or off. "
                   "Messages: any key of the universe, nil / unspecified / out-of-range wire keys, any coordination level (none, majority, all), deltas from this or another node, batches from this or another data centre with 0..1 delta and 0..1 tombstone, full states with 0..2 entries. "
                   "Asserted after the step: Inv; after a local Delete, a received peer tombstone or a cross-DC batch tombstone for k (decodable key, not our own echo / own DC) the replica holds a tombstone for k and no value - from any pre-state including k never seen; a Get of a tombstoned key answers without a value; a tombstone disappears only in the prune tick and only if now - deletedAt > TombstoneTTL, and the prune tick keeps every tombstone that has not expired. vC41_init: Inv holds for a freshly started replicator (PreStart creates an empty tombstone map, so a snapshot restore cannot violate it; restoreFromSnapshot itself needs a bbolt store and is not encoded). "
                   "Substituted (environment): time.Now (harness clock, arbitrary non-decreasing), (*ReceiveContext).Response (recorder) and Tell (no-op), pathToAddress, ddata.DecodeCRDT / ddata.EncodeCRDT (opaque value codec: any value or an error), cluster.Peers (error / none / one peer), remoting RemoteLookup / RemoteAsk / RemoteTell (the peer may answer with any value for any key, i.e. it may not have applied the tombstone yet). CRDT values are an opaque harness type whose Merge is max. "
                   "One step from every Inv-state covers every interleaving of update, delete, delta, tombstone, anti-entropy and read messages on one replica; the property's cross-replica part (a replica that has received the tombstone) is exactly Inv on that replica.",
    "bounds": {"keys": "3 (k1,k2,k3), each absent / live / tombstoned", "full state entries": "0..2", "batch": "0..1 delta + 0..1 tombstone", "peers": "0..1", "clock, deletedAt": "< 2^61 ns", "ttl": "(0, 2^60) ns"},
    "assumptions": ["map iteration order is insertion order (Go's randomisation is not modelled)", "time.Time is abstracted to its int64 nanosecond reading",
                    "restoreFromSnapshot (bbolt) is not encoded: Inv after a restart is argued from PreStart creating an empty tombstone map (vC41_init)"],
}
