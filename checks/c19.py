P = "github.com/tochemey/goakt/v4/actor."
C = "github.com/tochemey/goakt/v4/internal/cluster."
SUB = {"(*" + P + "PID).Tell": P + "vC19_tell",
       "(*" + C + "cluster).putRecordIfAbsent": C + "vC19_putIfAbsent"}
CHECK = {
    "id": "C19",
    "packages": ["./actor", "./internal/cluster"],
    "harness": ["actor/zz_verif_c19.go", "internal/cluster/zz_verif_c19.go"],
    "descend_extra": ["github.com/reugn/go-quartz"],
    "entries": [
        {"fn": P + "vC19_book", "replay": "model-only", "cases_quick": {"ops": [3]}, "cases_thorough": {"ops": [4]}},
        {"fn": P + "vC19_claim", "replay": "model-only", "opts": {"substitute": dict(SUB, **{"fmt.Sprintf": P + "vC19_sprintf"})},
         "cases_quick": {"nodes": [2]}, "cases_thorough": {"nodes": [3]}},
        {"fn": P + "vC19_ttl", "replay": "model-only"},
    ],
    "opts": {"unwind": 8, "substitute": SUB},
    "stop": list(SUB.keys()),
    "explanation": "",
    "bounds": {},
}
