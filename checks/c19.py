P = "github.com/tochemey/goakt/v4/actor."
C = "github.com/tochemey/goakt/v4/internal/cluster."
SUB = {"(*" + P + "PID).Tell": P + "vC19_tell",
       "(*" + C + "cluster).putRecordIfAbsent": C + "vC19_putIfAbsent"}
CHECK = {
    "id": "C19",
    "packages": ["./actor"],
    "harness": ["actor/zz_verif_c19.go", "internal/cluster/zz_verif_c19.go"],
    "descend_extra": ["github.com/reugn/go-quartz"],
    "entries": [
        {"fn": P + "vC19_book", "replay": "model-only", "cases_quick": {"ops": [3]}, "cases_thorough": {"ops": [5]}},
        {"fn": P + "vC19_claim", "replay": "model-only", "opts": {"substitute": dict(SUB, **{"fmt.Sprintf": P + "vC19_sprintf"})},
         "cases_quick": {"nodes": [2]}, "cases_thorough": {"nodes": [4]}},
        {"fn": P + "vC19_ttl", "replay": "model-only"},
        {"fn": P + "vC19_cron", "replay": "model-only", "opts": {"substitute": dict(SUB, **{"fmt.Sprintf": P + "vC19_sprintf",
            "github.com/reugn/go-quartz/quartz.NewCronTriggerWithLoc": P + "vC19_newCron", "(*github.com/reugn/go-quartz/quartz.CronTrigger).NextFireTime": P + "vC19_cronNext"})}},
    ],
    "opts": {"unwind": 8, "substitute": SUB},
    "stop": list(SUB.keys()),
    "timeout_ms": {"quick": 900000, "thorough": 3000000},
    "explanation": "Kernel only (delivery timing is go-quartz's and outside the claim). vC19_book: (*scheduler).ScheduleOnce / Schedule / CancelSchedule / PauseSchedule / ResumeSchedule / ListSchedules / recordSchedule / makeJobFn, newScheduleConfig, WithReference, the real xsync.Map bookkeeping and the real go-quartz JobKey/JobDetail/FunctionJob/trigger constructors are executed symbolically for every sequence of K operations over two references, on a started or stopped scheduler, against the set of live (scheduled, not cancelled) references; "
                   "the quartz scheduler is a harness stand-in (a keyed job set with pause flags that, like go-quartz, refuses a key that is still queued); a reference must stay known to cancel/pause/resume exactly while its job is queued (also after a refused duplicate registration); firing a job that is still scheduled runs the real job function, with (*PID).Tell substituted by a recorder. "
                   "vC19_claim: N nodes (own scheduler and actor system each) handle the same cron schedule: real makeJobFn + claimClusterFire + (*cluster).ClaimScheduleFire, with (*cluster).putRecordIfAbsent substituted by one shared put-if-absent registry (stored / already present / storage failure); per node symbolic: which of two ticks, lag (library clock: arbitrary non-decreasing), tick metadata present, cluster engine present / running, storage failure. "
                   "The registry write is one atomic storage operation per node, so all interleavings of the racing nodes are the orders in which the harness runs them (the tick chosen per node is arbitrary). fmt.Sprintf is substituted in this entry by an exact equivalent for the claim key format and the two tick times (asserted). "
                   "vC19_cron: the real ScheduleWithCron (go-quartz cron parser substituted by a one-minute trigger) on a node whose cluster engine is wired, actor system started or not yet started: the registered job claims its ticks (one tick handled twice => at most one delivery). vC19_ttl: cronClaimTTL for a trigger with arbitrary next-fire times / errors is within [1 min, 24 h] and equals the period inside the bounds.",
    "bounds": {"book": "quick 3 / thorough 5 operations, 2 references", "claim": "quick 2 / thorough 4 nodes, 2 ticks, ttl in [1 min, 24 h]", "registry": "entries do not expire during the scenario (claim-entry expiry vs. the stale-tick rule is not modelled)"},
    "assumptions": ["go-quartz is replaced by a keyed job set: its timing, misfire and execution semantics are outside the claim", "registry entries outlive the scenario (TTL expiry of claim entries is not modelled)",
                    "a node's registry write is atomic (olric NX put)"],
}
