P = "github.com/tochemey/goakt/v4/actor."
M = lambda n: "(*" + P + "PID)." + n
# environment of the turn-level scenarios: the outgoing Tell is a recorder, the harness itself runs the turns
TURN_SUB = {M("Tell"): P + "vC16_tell", M("submitSupervision"): P + "vC16_supervision",
            "(*" + P + "dispatcher).schedule": P + "vC16_noSchedule", "(*" + P + "worker).reschedule": P + "vC16_noReschedule"}
TURN_OPTS = {"substitute": TURN_SUB, "unwind": 16, "feas_from_iter": 1000, "select_precise": True}
CHECK = {
    "id": "C16",
    "packages": ["./actor"],
    "harness": ["actor/zz_verif_c16.go"],
    "replace": [{"file": "actor/pools.go", "old": "const contextPoolSize = 8192", "new": "const contextPoolSize = 2"}],
    "entries": [
        {"fn": P + "vC16_completeVsCancel", "replay": "model-only", "opts": {"rounds": 3, "unwind_mode": "assume", "feasibility": False}},
        {"fn": P + "vC16_sequential", "opts": {"unwind": 6}},
        {"fn": P + "vC16_mixedModes", "replay": "model-only", "cases": {"modes": [0, 1, 2, 3]}, "opts": TURN_OPTS},
        {"fn": P + "vC16_retune", "replay": "model-only", "cases": {"policy": [1, 2], "toggle": [0, 1, 2, 3]}, "opts": TURN_OPTS},
    ],
    "opts_thorough": {"rounds": 5},
    "opts": {"unwind": 4},
    "explanation": ("requestState.setCallback/complete/stopTimeoutIfSet, PID.registerRequestState/deregisterRequestState/completeRequest/cancelInFlightRequests "
                    "with the real internal/xsync.Map: sequential bookkeeping against counters, and completeRequest (on the turn) racing cancelInFlightRequests "
                    "(stop path on another goroutine) under solver-chosen interleavings. Turn-level scenarios (vC16_mixedModes, vC16_retune): one requesting actor "
                    "with its real UnboundedMailbox, system mailbox, stash buffer and context pool, run by the real doReceive / runTurn / finishOrReclaim / dispatchOne / "
                    "enableReentrancyStash / stash / unstashAll / handleAsyncResponse / handleReceived(+recovery); its Receive issues requests through "
                    "ReceiveContext.Request -> PID.request (newRequestConfig, WithReentrancyMode, uuid, registerRequestState, buildAsyncRequest) and retunes the policy "
                    "through ReceiveContext.DisableReentrancy / EnableReentrancy -> installReentrancy / retune / disable; outcomes arrive as AsyncResponse messages "
                    "(reply, error reply) or through RequestCall.Cancel -> requestState.cancel -> enqueueAsyncError. A reference model in the harness (mode each "
                    "request was admitted with, continuation counts, policy mode/limit) is compared with the code after every arrival: no ordinary message is "
                    "handled while a blocking request is outstanding; a request is admitted iff the effective mode is not Off and the limit is not reached; "
                    "in-flight/blocking counters and the request table equal the model; the continuation runs exactly once, on the turn, with the reply/error/"
                    "cancellation it was sent; at the end counters are zero, the stash is empty, every user message was handled exactly once in arrival order. "
                    "Substituted: PID.Tell (recorder of the outgoing AsyncRequest), dispatcher.schedule / worker.reschedule (no-ops, the harness runs the turns), "
                    "PID.submitSupervision (counter). The history shapes of the turn-level entries are enumerated concretely (cases + loops in the harness); "
                    "only the reply payload is symbolic there."),
    "bounds": {"requests": "<= 3 (sequential), 2 (turn-level)", "maxInFlight": "0..2 (0,2,3 in mixedModes)", "threads": "turn + stopper", "rounds": 3,
               "mixedModes": "2 overlapping requests x {AllowAll,StashNonReentrant}^2 (default mode / per-call override) x all 12 arrival orders of 2 user messages and the 2 outcomes (reply; error reply or Cancel), mailbox drained after every arrival, throughput 3",
               "retune": "initial mode {AllowAll,Stash} x {nothing, Disable, Disable+Enable, Enable} x initial limit 0..2 x new limit 0..2 x new mode {same, other} x override of 2nd request {none, AllowAll, Stash} x outcome order",
               "contextPoolSize": "8192 -> 2"},
    "assumptions": ["turn-level entries: one turn runs at a time and the mailbox is drained between two arrivals (finer interleavings of doReceive with the turn are C01/C02)",
                    "select{case <-pool: default:} takes the case exactly when enabled (the context pool is used by this actor only)"],
}
