P = "github.com/tochemey/goakt/v4/actor."
M = lambda n: "(*" + P + "PID)." + n
# environment of the turn-level scenarios: the outgoing Tell is a recorder, the harness itself runs the turns
TURN_SUB = {M("Tell"): P + "vC16_tell", M("submitSupervision"): P + "vC16_supervision",
            "(*" + P + "dispatcher).schedule": P + "vC16_noSchedule", "(*" + P + "worker).reschedule": P + "vC16_noReschedule"}
TURN_OPTS = {"substitute": TURN_SUB, "unwind": 6, "feas_from_iter": 1000, "select_precise": True}
CHECK = {
    "id": "C16",
    "packages": ["./actor"],
    "harness": ["actor/zz_verif_c16.go"],
    "replace": [{"file": "actor/pools.go", "old": "const contextPoolSize = 8192", "new": "const contextPoolSize = 2"}],
    "entries": [
        {"fn": P + "vC16_completeVsCancel", "replay": "model-only", "opts": {"rounds": 3, "unwind_mode": "assume", "feasibility": False}},
        {"fn": P + "vC16_sequential", "opts": {"unwind": 6}},
        {"fn": P + "vC16_mixedModes", "replay": "model-only", "cases": {"modes": [0, 1, 2, 3], "order": list(range(12))}, "opts": TURN_OPTS},
        {"fn": P + "vC16_retune", "replay": "model-only", "opts": TURN_OPTS},
    ],
    "opts": {"unwind": 4},
    "explanation": "requestState.setCallback/complete/stopTimeoutIfSet, PID.registerRequestState/deregisterRequestState/completeRequest/cancelInFlightRequests with the real internal/xsync.Map: sequential bookkeeping against counters, and completeRequest (on the turn) racing cancelInFlightRequests (stop path on another goroutine) under solver-chosen interleavings.",
    "bounds": {"requests": "<= 3", "maxInFlight": "0..2", "threads": "turn + stopper", "rounds": 3},
}
