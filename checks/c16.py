P = "github.com/tochemey/goakt/v4/actor."
CHECK = {
    "id": "C16",
    "packages": ["./actor"],
    "harness": ["actor/zz_verif_c16.go"],
    "entries": [
        {"fn": P + "vC16_completeVsCancel", "replay": "model-only", "opts": {"rounds": 3, "unwind_mode": "assume", "feasibility": False}},
        {"fn": P + "vC16_sequential", "opts": {"unwind": 6}},
    ],
    "opts": {"unwind": 4},
    "explanation": "requestState.setCallback/complete/stopTimeoutIfSet, PID.registerRequestState/deregisterRequestState/completeRequest/cancelInFlightRequests with the real internal/xsync.Map: sequential bookkeeping against counters, and completeRequest (on the turn) racing cancelInFlightRequests (stop path on another goroutine) under solver-chosen interleavings.",
    "bounds": {"requests": "<= 3", "maxInFlight": "0..2", "threads": "turn + stopper", "rounds": 3},
}
