P = "github.com/tochemey/goakt/v4/actor."
A = lambda n: "(*" + P + "actorSystem)." + n
SUB = {"github.com/tochemey/goakt/v4/internal/cluster.PutGrainIfAbsent": P + "vC30_putIfAbsent",
       A("Host"): P + "vC30_host", A("Port"): P + "vC30_port", "(*" + P + "grainPID).toWireGrain": P + "vC30_toWire"}
CHECK = {
    "id": "C30",
    "packages": ["./actor"],
    "harness": ["actor/zz_verif_c30.go"],
    "entries": [
        {"fn": P + "vC30_twoNodes", "replay": "model-only"},
        {"fn": P + "vC30_reactivation", "replay": "model-only", "opts": {"rounds": 4}},
        {"fn": P + "vC30_failedActivation", "replay": "model-only", "opts": {"rounds": 4}},
    ],
    "opts_thorough": {"rounds": 5},
    "opts": {"rounds": 3, "unwind": 3, "unwind_mode": "assume", "feasibility": False, "substitute": SUB},
    "stop": list(SUB.keys()),
    "timeout_ms": {"quick": 400000, "thorough": 1800000},
    "explanation": "actorSystem.ensureGrainOwnership, getGrainOwner, tryClaimGrain, isLocalGrainOwner, InCluster under solver-chosen interleavings of two nodes sharing a harness registry (atomic GrainExists/GetGrain/PutGrain/RemoveGrain/put-if-absent); activation and deactivation are ghost flags mirroring the registry effects of finalizeGrainActivation (PutGrain) and grainPID.deactivate (RemoveGrain).",
    "bounds": {"nodes": 2, "rounds": "3 (two nodes) / 4 (reactivation)", "history": "activate | activate, deactivate, activate"},
}
