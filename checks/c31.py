P = "github.com/tochemey/goakt/v4/actor."
G = lambda n: "(*" + P + "grainPID)." + n
SUB = {G("handleGrainContext"): P + "vC31_onReceive", G("deactivate"): P + "vC31_deactivateFn", G("teardownInFlightRequests"): P + "vC31_teardown",
       G("recovery"): P + "vC31_recovery", "(*" + P + "GrainContext).NoErr": P + "vC31_noErr", "(*" + P + "GrainContext).Err": P + "vC31_errFn",
       "(*" + P + "dispatcher).schedule": P + "vC31_schedule", "(*" + P + "worker).reschedule": P + "vC31_reschedule"}
CHECK = {
    "id": "C31",
    "packages": ["./actor"],
    "harness": ["actor/zz_verif_c31.go"],
    "replace": [{"file": "actor/pools.go", "old": "const contextPoolSize = 8192", "new": "const contextPoolSize = 2"}],
    "entries": [
        {"fn": P + "vC31_turns", "replay": "model-only", "cover_optional": ("pending",)},
        {"fn": P + "vC31_deactivate", "replay": "model-only"},
    ],
    "opts": {"rounds": 3, "unwind": 4, "unwind_mode": "assume", "feasibility": False, "substitute": SUB},
    "stop": list(SUB.keys()),
    "timeout_ms": {"quick": 400000, "thorough": 1800000},
    "explanation": "grainPID.receive, runTurn, finishOrReclaim, hasPendingWork, paused, dequeueResponse, the real dispatchOne (PoisonPill arm: handlePoisonPill with its isActive guard) and the real grainMailbox under solver-chosen interleavings; OnReceive (handleGrainContext) and OnDeactivate (deactivate) are ghost recorders, the ready queue is a token channel.",
    "bounds": {"threads": "2 senders (<= 3 messages + pills), 2 workers", "rounds": 3, "throughput": 3},
}
