P = "github.com/tochemey/goakt/v4/actor."
G = lambda n: "(*" + P + "grainPID)." + n
SUB = {G("handleGrainContext"): P + "vC31_onReceive", G("deactivate"): P + "vC31_deactivateFn", G("teardownInFlightRequests"): P + "vC31_teardown",
       G("recovery"): P + "vC31_recovery", "(*" + P + "GrainContext).NoErr": P + "vC31_noErr", "(*" + P + "GrainContext).Err": P + "vC31_errFn",
       "(*" + P + "dispatcher).schedule": P + "vC31_schedule", "(*" + P + "worker).reschedule": P + "vC31_reschedule"}
# activation entries: the real handleGrainContext / activate run; environment only
SUB_ACT = {"(*" + P + "dispatcher).schedule": P + "vC31_scheduleQ", "(*" + P + "worker).reschedule": P + "vC31_rescheduleQ", G("recovery"): P + "vC31_recovery",
           "(*" + P + "actorSystem).localSend": P + "vC31_localSend", "(*" + P + "GrainIdentity).Validate": P + "vC31_validateID",
           "(*" + P + "reflection).instantiateGrain": P + "vC31_instantiate", "(*github.com/flowchartsman/retry.Retrier).RunContext": P + "vC31_runContext"}
SUB_RESEND = dict(SUB_ACT)
SUB_RESEND.update({G("teardownInFlightRequests"): P + "vC31_teardown", "(*" + P + "GrainContext).NoErr": P + "vC31_noErr", "(*" + P + "GrainContext).Err": P + "vC31_errFn"})
STOP = [k for k in SUB if k not in (G("handleGrainContext"), G("deactivate"))] + ["(*" + P + "actorSystem).localSend", "(*" + P + "reflection).instantiateGrain"]
CHECK = {
    "id": "C31",
    "packages": ["./actor"],
    "harness": ["actor/zz_verif_c31.go"],
    "replace": [{"file": "actor/pools.go", "old": "const contextPoolSize = 8192", "new": "const contextPoolSize = 2"}],
    "entries": [
        {"fn": P + "vC31_turns", "replay": "model-only", "cover_optional": ("pending",)},
        {"fn": P + "vC31_deactivate", "replay": "model-only"},
        {"fn": P + "vC31_activation", "replay": "model-only", "cases": {"first": [0, 1], "retained": [0, 1]},
         "opts": {"substitute": SUB_ACT, "unwind": 6}, "cover_optional": ("all-received",)},
        {"fn": P + "vC31_resend", "replay": "model-only", "opts": {"substitute": SUB_RESEND, "unwind": 6, "rounds": 2},
         "cover_optional": ("sent-after-deactivation", "fresh-instance", "handled-by-old-or-dropped")},
    ],
    "opts": {"rounds": 3, "unwind": 4, "unwind_mode": "assume", "feasibility": False, "substitute": SUB},
    "stop": STOP,
    "timeout_ms": {"quick": 400000, "thorough": 1800000},
    "explanation": "grainPID.receive, runTurn, finishOrReclaim, hasPendingWork, paused, dequeueResponse, the real dispatchOne (PoisonPill arm: handlePoisonPill with its isActive guard) and the real grainMailbox under solver-chosen interleavings; OnReceive (handleGrainContext) and OnDeactivate (deactivate) are ghost recorders, the ready queue is a token channel.",
    "bounds": {"threads": "2 senders (<= 3 messages + pills), 2 workers", "rounds": 3, "throughput": 3},
}
