P = "github.com/tochemey/goakt/v4/actor."
G = lambda n: "(*" + P + "grainPID)." + n
SUB = {G("handleGrainContext"): P + "vC31_onReceive", G("deactivate"): P + "vC31_deactivateFn", G("teardownInFlightRequests"): P + "vC31_teardown",
       G("recovery"): P + "vC31_recovery", "(*" + P + "GrainContext).NoErr": P + "vC31_noErr", "(*" + P + "GrainContext).Err": P + "vC31_errFn",
       "(*" + P + "dispatcher).schedule": P + "vC31_schedule", "(*" + P + "worker).reschedule": P + "vC31_reschedule"}
# activation entries: the real handleGrainContext / activate run; environment only
SUB_ACT = {"(*" + P + "dispatcher).schedule": P + "vC31_scheduleQ", "(*" + P + "worker).reschedule": P + "vC31_rescheduleQ", G("recovery"): P + "vC31_recovery",
           "(*" + P + "actorSystem).localSend": P + "vC31_localSend", "(*" + P + "GrainIdentity).Validate": P + "vC31_validateID",
           "(*" + P + "reflection).instantiateGrain": P + "vC31_instantiate", "(*github.com/flowchartsman/retry.Retrier).RunContext": P + "vC31_runContext"}
SUB_RESEND = dict(SUB_ACT)
SUB_RESEND.update({G("teardownInFlightRequests"): P + "vC31_teardown", "(*" + P + "GrainContext).NoErr": P + "vC31_noErr", "(*" + P + "GrainContext).Err": P + "vC31_errFn"})
STOP = [k for k in SUB if k not in (G("handleGrainContext"), G("deactivate"))] + ["(*" + P + "actorSystem).localSend", "(*" + P + "reflection).instantiateGrain"]
CHECK = {
    "id": "C31",
    "packages": ["./actor"],
    "harness": ["actor/zz_verif_c31.go"],
    "replace": [{"file": "actor/pools.go", "old": "const contextPoolSize = 8192", "new": "const contextPoolSize = 2"}],
    "entries": [
        {"fn": P + "vC31_turns", "replay": "model-only", "cover_optional": ("pending",)},
        {"fn": P + "vC31_deactivate", "replay": "model-only"},
        # first caller = GrainIdentity/GrainOf path (both pre-states), first caller = TellGrain (quick: retained process; thorough: both pre-states)
        {"fn": P + "vC31_activation", "replay": "model-only", "cases": {"first": [0], "retained": [0, 1]},
         "opts": {"substitute": SUB_ACT, "unwind": 6, "rounds": 2}, "cover_optional": ("all-received",)},
        {"fn": P + "vC31_activation", "replay": "model-only", "cases_quick": {"first": [1], "retained": [1]}, "cases_thorough": {"first": [1], "retained": [0, 1]},
         "opts": {"substitute": SUB_ACT, "unwind": 6, "rounds": 2}, "cover_optional": ("all-received",)},
        # thorough only: ~4 min of solver time
        {"fn": P + "vC31_resend", "replay": "model-only", "tiers": ("thorough",), "opts": {"substitute": SUB_RESEND, "unwind": 6, "rounds": 2},
         "cover_optional": ("sent-after-deactivation", "fresh-instance", "handled-by-old-or-dropped")},
    ],
    "opts": {"rounds": 3, "unwind": 4, "unwind_mode": "assume", "feasibility": False, "substitute": SUB},
    "stop": STOP,
    "timeout_ms": {"quick": 900000, "thorough": 1800000},
    "explanation": (
        "vC31_turns / vC31_deactivate: grainPID.receive, runTurn, finishOrReclaim, hasPendingWork, paused, dequeueResponse, the real dispatchOne (PoisonPill arm: handlePoisonPill with its isActive guard) "
        "and the real grainMailbox under solver-chosen interleavings; OnReceive (handleGrainContext) and OnDeactivate (deactivate) are ghost recorders, the ready queue is a token channel. "
        "vC31_activation (Mode C; one grain identity that is not active: no process registered [never used / deactivated earlier], or an inactive process retained in the grains map): two callers at the same time - "
        "the first resolves the identity (real activateGrain -> resolveGrainOwner, tryRemoteGrainActivation, activateGrainLocally: the shared body of GrainIdentity / GrainOf) or sends (real TellGrain), the second sends (TellGrain) - "
        "and one worker (2 turns). Real: TellGrain gate, ensureGrainProcess (fast path + slow path), ensureExistingGrainProcess, ensureNewGrainProcess, runGrainActivation over the real x/sync singleflight.Group, "
        "newGrainPID, (*grainPID).activate (timer registry, recover/rollback defers, activated flag), finalizeGrainActivation, xsync.Map, grainPID.receive/runTurn/dispatchOne/handleGrainContext, grainMailbox. "
        "The grain is a ghost (vC31Grain) whose OnActivate / OnReceive / OnDeactivate have a begin and an end with a context switch in between. Asserted: OnActivate never starts while another activation of the identity "
        "(any instance) is in progress or live; OnReceive only after the OnActivate of its instance completed; no two OnReceive of the identity overlap (also on two instances); when the callers returned exactly one "
        "instance was activated, exactly once, and it is the registered active process (so passivation / PoisonPill / Stop reach it; an orphan never gets OnDeactivate); a retained process is re-activated in place; "
        "every message is received exactly once when the worker drained. "
        "vC31_resend (Mode C): the grain is active (real activate in the prefix); one caller deactivates it explicitly (TellGrain(PoisonPill): real handlePoisonPill, deactivate with the timer-registry stop, "
        "grains.Delete, flag reset), another sends a message, one worker (2 turns). Asserted: OnDeactivate exactly once per activation, never overlapping OnReceive; the new activation never starts before the old "
        "OnDeactivate returned; a message whose send starts after the deactivation completed activates a fresh instance (created from the registry) that receives it exactly once and is the registered active process. "
        "Substituted in these two entries (environment only): dispatcher.schedule / worker.reschedule -> token channel of grain processes, grainPID.recovery -> no-op, actorSystem.localSend -> ensureGrainProcess + "
        "receive (the reply wait is dropped), GrainIdentity.Validate -> nil, reflection.instantiateGrain -> fresh ghost instance, retry.Retrier.RunContext -> first attempt; vC31_resend additionally "
        "teardownInFlightRequests / GrainContext.NoErr / Err -> no-ops. Auto-stubbed: retry.NewRetrier, time.Time.Unix."),
    "bounds": {"turns/deactivate": "2 senders (<= 3 messages + pills), 2 workers, 3 rounds, throughput 3",
               "activation": "1 identity, 2 callers ({GrainIdentity path | Tell} + Tell) x {no process | retained inactive process}, 1 worker x 2 turns, 2 rounds, throughput 2",
               "resend": "1 identity, PoisonPill sender + message sender, 1 worker x 2 turns, 2 rounds"},
    "assumptions": [
        "not clustered (ownership claims are C30's subject); OnActivate / OnDeactivate succeed on the first attempt; contexts are never cancelled",
        "an OnReceive after the OnDeactivate of the same activation (message queued behind the PoisonPill) is finding C31-1 and is asserted only by vC31_deactivate",
        "a message whose send overlaps the deactivation may be dropped by receive's isActive gate (the real localSend then reports a timeout to the sender): only sends that start after the deactivation completed are required to reach a fresh instance",
    ],
}
