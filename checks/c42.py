P = "github.com/tochemey/goakt/v4/actor."
SUB = {
    "(*" + P + "producerController).tell": P + "vC42_ptell",
    "(*" + P + "consumerController).tell": P + "vRD_ctell",
    "(*" + P + "ReceiveContext).Shutdown": P + "vRD_shutdown",
    "(*" + P + "ReceiveContext).Watch": P + "vRD_watch",
    "(*" + P + "ReceiveContext).UnWatch": P + "vRD_unwatch",
    "(*" + P + "actorSystem).getRemoting": P + "vRD_getRemoting",
    "(*" + P + "actorSystem).resolveReliableCompanion": P + "vRD_resolveCompanion",
    "context.WithTimeout": P + "vRD_withTimeout",
    "slices.overlaps[*github.com/tochemey/goakt/v4/internal/commands.SequencedMessage]": P + "vRD_noOverlap",
}
CHECK = {
    "id": "C42",
    "packages": ["./actor", "./internal/commands"],
    "harness": ["actor/zz_verif_rd.go", "actor/zz_verif_c42.go", "internal/commands/zz_verif_rd.go"],
    "entries": [
        {"fn": P + "vC42_producer", "replay": "model-only", "opts": {"feasibility": True, "unwind": 8}},
        {"fn": P + "vC42_consumer", "replay": "model-only",
         "cases_quick": {"kind": [0, 1, 2, 3, 4], "bufLen": [0, 1, 2, 3], "seqBits": [61], "maxWindow": [4]},
         "cases_thorough": {"kind": [0, 1, 2, 3, 4], "bufLen": [0, 1, 2, 3, 4], "seqBits": [61], "maxWindow": [5]},
         "cover_optional": ("redelivered", "delivered", "advanced", "session-reset", "buffered"),
         # assertions about an event that only some message kinds can cause (unreachable elsewhere is the intended fact)
         "may_be_unreachable": (
             "a Delivery goes to the bound consumer endpoint only",
             "a Delivery is told again only by the tick and only while it is still the unconfirmed one in flight",
             "a new Delivery is the one in flight and carries exactly expectedSeq (no gap, no reordering)",
             "the consumer is handed P(expectedSeq): the id and payload produced under that sequence",
             "a new Delivery is handed over only when nothing is in flight or the one in flight was just confirmed",
             "a Delivery carries the adopted session",
             "expectedSeq advances by exactly one, on the Confirmed that matches the Delivery in flight",
             "otherwise expectedSeq only changes when a new producer session is adopted, which resets delivery state to the acked NextSeq",
         )},
    ],
    "opts": {"unwind": 8, "substitute": SUB, "feasibility": False, "batch_fresh": True, "reach_fresh": True, "equalfold_ascii": True},
    "stop": [k for k in SUB.keys() if k.startswith("(*" + P)],
    "timeout_ms": {"quick": 900000, "thorough": 2400000},
    "explanation": "Handler-step invariants (encoding (a) of the plan), volatile mode, whole messages (no chunking). The bounded fault history (b) and liveness ('eventually confirmed') are NOT claimed. "
                   "vC42_producer: the real (*producerController).Receive runs for one arbitrary message from an arbitrary state satisfying I_p (0 <= confirmedSeq <= currentSeq, unconfirmed = the 0..3 contiguous ascending sequences (confirmedSeq, currentSeq], StoredAck phase => the pending message is the latest stored one). Asserted at every emission: what goes out under sequence s carries the id and payload stored under s (P(s)) - or is the just-accepted pending message - in the controller's session, and emissions within a step ascend; Stored reports the latest stored sequence. "
                   "After the step: I_p preserved; every surviving entry kept its id and payload; a new sequence (currentSeq+1, at most one per step) is given only to the message the bound producer offers under the open credit token; the list is cut only at its head, up to a confirmation authenticated for the current registration/session/nonce and <= currentSeq - so nothing above the watermark is ever dropped. "
                   "vC42_consumer: the real (*consumerController).Receive runs for one arbitrary message from an arbitrary state satisfying I_c (expectedSeq = confirmedSeq+1, buffer strictly ascending, above expectedSeq, within the grant, every entry = P(seq); inFlight != nil => inFlight is P(expectedSeq) under sequence expectedSeq; window 1..4) under the network invariant 'a SequencedMessage of the adopted session carries P(seq)' (stale-session messages, RegistrationAcks, Confirmeds, ticks, Terminated are arbitrary; any sender; duplicates, reordering and stale traffic are all just 'one arbitrary message'). "
                   "P is a ghost table (id, payload) for the 6 sequences from expectedSeq. Asserted: every new Delivery is the one in flight, carries exactly expectedSeq and P(expectedSeq), is handed over only when nothing is in flight or the one in flight was just confirmed, at most one per step; a Delivery is told again only by the tick and only while still in flight; expectedSeq advances by exactly one on the Confirmed matching the in-flight Delivery (sender, session, id, seq) and otherwise only when a new producer session is adopted (reset to the acked NextSeq with empty buffer); I_c preserved. "
                   "By induction over any message/fault history: the consumer endpoint is handed P(1), P(2), ... in order without gaps within a session, and only re-presented the unconfirmed one. Substitutions as in C43.",
    "bounds": {"producer": "unconfirmed 0..3, confirmedSeq < 2^62", "consumer quick": "window 1..4, buffer 0..3, confirmedSeq < 2^61, incoming seq any int64", "consumer thorough": "window 1..5, buffer 0..4", "payloads": "1 byte, ids from a 4-element universe",
               "not encoded": "bounded fault history from the initial state, liveness, controller restarts, durable queue lanes, chunk assembly"},
    "assumptions": ["strings.EqualFold modelled for ASCII strings only", "strings.TrimSpace of a symbolic string trims ASCII white space only", "the serializer is a bijection on frames (identity in the harness)"],
}
