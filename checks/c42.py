P = "github.com/tochemey/goakt/v4/actor."
SUB = {
    "(*" + P + "producerController).tell": P + "vC42_ptell",
    "(*" + P + "consumerController).tell": P + "vRD_ctell",
    "(*" + P + "ReceiveContext).Shutdown": P + "vRD_shutdown",
    "(*" + P + "ReceiveContext).Watch": P + "vRD_watch",
    "(*" + P + "ReceiveContext).UnWatch": P + "vRD_unwatch",
    "(*" + P + "actorSystem).getRemoting": P + "vRD_getRemoting",
    "(*" + P + "actorSystem).resolveReliableCompanion": P + "vRD_resolveCompanion",
    "context.WithTimeout": P + "vRD_withTimeout",
    "slices.overlaps[*github.com/tochemey/goakt/v4/internal/commands.SequencedMessage]": P + "vRD_noOverlap",
}
CHECK = {
    "id": "C42",
    "packages": ["./actor", "./internal/commands"],
    "harness": ["actor/zz_verif_rd.go", "actor/zz_verif_c42.go", "internal/commands/zz_verif_rd.go"],
    "entries": [
        {"fn": P + "vC42_producer", "replay": "model-only", "opts": {"feasibility": True, "unwind": 8}},
        {"fn": P + "vC42_consumer", "replay": "model-only",
         "cases_quick": {"kind": [0, 1, 2, 3, 4], "bufLen": [0, 1, 2], "seqBits": [16]},
         "cases_thorough": {"kind": [0, 1, 2, 3, 4], "bufLen": [0, 1, 2, 3], "seqBits": [61]},
         "cover_optional": ("redelivered", "delivered", "advanced", "session-reset", "buffered")},
    ],
    "opts": {"unwind": 8, "substitute": SUB, "feasibility": False, "batch_fresh": True, "reach_fresh": True, "equalfold_ascii": True},
    "stop": [k for k in SUB.keys() if k.startswith("(*" + P)],
    "timeout_ms": {"quick": 400000, "thorough": 1800000},
    "explanation": "TODO",
    "bounds": {},
}
