P = "github.com/tochemey/goakt/v4/actor."
A = lambda n: "(*" + P + "actorSystem)." + n
SUB = {A("actorReference"): P + "vC36_ref", A("configPID"): P + "vC36_configPID", A("completeSpawn"): P + "vC36_completeSpawn",
       "(*" + P + "PID).toSerialize": P + "vC36_toSerialize", "(*" + P + "PID).Name": P + "vC36_name"}
CHECK = {
    "id": "C36",
    "packages": ["./actor"],
    "harness": ["actor/zz_verif_c36.go"],
    "entries": [
        {"fn": P + "vC36_sameNode", "replay": "model-only"},
        {"fn": P + "vC36_twoLeaders", "replay": "model-only"},
        {"fn": P + "vC36_waiterCancelled", "replay": "model-only"},
    ],
    "opts_thorough": {"rounds": 5},
    "opts": {"rounds": 3, "unwind": 3, "unwind_mode": "assume", "feasibility": False, "substitute": SUB, "go_inline": True,
             "globals": {}},
    "stop": list(SUB.keys()),
    "timeout_ms": {"quick": 400000, "thorough": 1800000},
    "explanation": "actorSystem.spawnSingletonOnLocal, runSpawnActivation with the real x/sync/singleflight, checkSpawnPreconditions, tree.nodeByName, publishSpawnedActor/putActorOnCluster under solver-chosen interleavings; the cluster registry is a harness fake (mutex-protected map implementing ActorExists/PutActor), instance creation (configPID) and tree attachment (completeSpawn) are substituted by ghost recorders around the real publication call.",
    "bounds": {"threads": "2 callers on one node / 2 nodes", "rounds": 3, "singleflight goroutine": "runs inline at its spawn point"},
}
