P = "github.com/tochemey/goakt/v4/breaker."
CHECK = {
    "id": "C47",
    "packages": ["./breaker"],
    "harness": ["breaker/zz_verif_c47.go"],
    "entries": [
        {"fn": P + "vC47_history", "cases": {"buckets": [1, 3], "bucketNanos": [10], "halfOpenMax": [1], "calls": [3], "nested": [0, 1]}},
        {"fn": P + "vC47_buckets", "cases": {"buckets": [1, 2, 3], "bucketNanos": [1, 10]}},
        {"fn": P + "vC47_sanitize"},
        {"fn": P + "vC47_probes", "replay": "model-only", "cases": {"halfOpenMax": [1, 2]}, "opts": {"rounds": 3}},
    ],
    "opts": {"unwind": 10, "select_precise": True},
    "explanation": "",
    "bounds": {},
}
