P = "github.com/tochemey/goakt/v4/breaker."
ADV = "(*" + P + "bucketWindow).advanceLocked"
HOPTS = {"feasibility": False, "small_int_float": 8, "fresh_solver": True, "loop_bounds": {ADV: 4}}
CHECK = {
    "id": "C47",
    "packages": ["./breaker"],
    "harness": ["breaker/zz_verif_c47.go"],
    "entries": [
        {"fn": P + "vC47_step", "opts": HOPTS,
         "cases_quick": {"buckets": [1, 3], "bucketNanos": [16], "halfOpenMax": [1, 2]},
         "cases_thorough": {"buckets": [1, 2, 3], "bucketNanos": [1, 16], "halfOpenMax": [1, 2]}},
        {"fn": P + "vC47_history", "opts": HOPTS, "tiers": ("thorough",),
         "cases": {"buckets": [1, 2], "bucketNanos": [16], "halfOpenMax": [1], "calls": [2], "nested": [0, 1]},
         "cover_optional": ("closed-again", "rejected-halfopen-full", "half-open", "opened", "rejected-open")},
        {"fn": P + "vC47_buckets", "cases": {"buckets": [1, 2, 3], "bucketNanos": [1, 10]}},
        {"fn": P + "vC47_sanitize"},
        {"fn": P + "vC47_probes", "replay": "model-only", "cases": {"halfOpenMax": [1, 2]}, "opts": {"rounds": 3}},
    ],
    "timeout_ms": {"quick": 400000, "thorough": 3000000},
    "opts": {"unwind": 10, "select_precise": True},
    "explanation": "",
    "bounds": {},
}
