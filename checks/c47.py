P = "github.com/tochemey/goakt/v4/breaker."
ADV = "(*" + P + "bucketWindow).advanceLocked"
HOPTS = {"feasibility": False, "small_int_float": 8, "fresh_solver": True, "loop_bounds": {ADV: 4}}
CHECK = {
    "id": "C47",
    "packages": ["./breaker"],
    "harness": ["breaker/zz_verif_c47.go"],
    "entries": [
        {"fn": P + "vC47_step", "opts": HOPTS,
         "cases_quick": {"buckets": [1, 2], "bucketNanos": [16], "halfOpenMax": [1, 2]},
         "cases_thorough": {"buckets": [1, 2, 3], "bucketNanos": [1, 16], "halfOpenMax": [1, 2]}},
        {"fn": P + "vC47_complete", "opts": HOPTS,
         "cases_quick": {"buckets": [1, 2], "bucketNanos": [16], "halfOpenMax": [1]},
         "cases_thorough": {"buckets": [1, 2, 3], "bucketNanos": [16], "halfOpenMax": [2]}},
        {"fn": P + "vC47_history", "opts": HOPTS, "tiers": ("thorough",),
         "cases": {"buckets": [1, 2], "bucketNanos": [16], "halfOpenMax": [1], "calls": [2], "nested": [0]},
         "cover_optional": ("closed-again", "rejected-halfopen-full", "half-open", "opened", "rejected-open")},
        {"fn": P + "vC47_history", "opts": HOPTS, "tiers": ("thorough",),
         "cases": {"buckets": [1], "bucketNanos": [16], "halfOpenMax": [1], "calls": [2], "nested": [1]},
         "cover_optional": ("closed-again", "rejected-halfopen-full", "half-open", "opened", "rejected-open")},
        {"fn": P + "vC47_buckets", "opts": {"fresh_solver": True}, "cases": {"buckets": [1, 2, 3], "bucketNanos": [1, 10]}},
        {"fn": P + "vC47_sanitize"},
        {"fn": P + "vC47_probes", "replay": "model-only", "opts": {"rounds": 3, "small_int_float": 8, "fresh_solver": True, "loop_bounds": {ADV: 4}},
         "cases_quick": {"halfOpenMax": [1], "callers": [2]}, "cases_thorough": {"halfOpenMax": [1, 2], "callers": [3]}},
    ],
    "timeout_ms": {"quick": 400000, "thorough": 3000000},
    "opts": {"unwind": 10, "select_precise": True},
    "explanation": "CircuitBreaker.Execute / tryAcquire / release / invoke / record / transitionTo / State, bucketWindow.add / advanceLocked / hardResetLocked / totalsLocked / reset / snapshot, newBuckets, NewCircuitBreaker and options.Sanitize are executed symbolically with an injected harness clock (arbitrary non-decreasing; advances between calls and while the protected function runs). "
                   "vC47_step: ONE call from an arbitrary breaker state (state, open deadline, probe tokens held by other in-flight calls, ring contents on the bucket grid with <= 1 success and <= 1 failure per bucket), symbolic failure rate (any double in [0,1]), minRequests 1..8, open timeout, outcome success/failure/caller-cancel/context-already-done; expected admission, result, next state, open deadline, token count and window totals are written from the property. "
                   "vC47_complete: the completion half of Execute alone - real record(outcome) (+ release() for a probe) from an arbitrary state INCLUDING Open and HalfOpen (a call admitted earlier finishing after other callers changed the state): Open stays Open with its deadline untouched, only a half-open sample below the threshold closes. vC47_buckets: one add() from an arbitrary ring state (counts < 2^20) against per-bucket semantics incl. the representation invariant. vC47_history (thorough): 2 calls from a fresh breaker (buckets 1,2), and 2 calls each with a further overlapping call made from inside it (buckets 1), against an event-log model. "
                   "vC47_probes (Mode C): 2 (thorough: 3) concurrent callers on an open breaker whose timeout elapsed, all interleavings with <= 3 context switches per thread: never more than halfOpenMaxCalls protected functions in flight, every token returned. vC47_sanitize: Sanitize yields valid options for arbitrary raw options.",
    "bounds": {"step": "buckets 1..3 (quick 1,2), bucket duration 16 ns (thorough also 1 ns), halfOpenMaxCalls 1..2, per-bucket counts <= 1 (window total <= 7), times < 2^41 ns", "history": "2 calls", "probes": "quick 2 callers cap 1; thorough 3 callers cap 1,2; 3 rounds",
               "float": "int->float64 conversions and the quotient fail/total are tabulated over 0..8 (bound proven as an obligation); the rate comparison is IEEE double"},
    "assumptions": ["the injected clock is non-decreasing and is not advanced between the reads inside one breaker operation", "failure rate is not NaN in the state-machine entries",
                    "vC47_step pre-states are over-approximate: every reachable breaker state is included"],
}
