M = "github.com/tochemey/goakt/v4/"
P = M + "actor."
SUB = {
    M + "supervisor.errorType": M + "supervisor.VC07ErrorType",
    P + "errorType": P + "vC07_errorType",
    "(*" + P + "PID).Tell": P + "vC07_tell",
    "(*" + P + "PID).Shutdown": P + "vC07_shutdown",
    "(*" + P + "PID).restartChild": P + "vC07_restartChild",
}
MO = {"replay": "model-only"}
OPT = ("no-rule", "stop-one-for-all", "restart-one-for-all")
ET = [0, 1, 2, 3, 4]
FAIL = dict(MO, fn=P + "vC07_failure", cover_optional=OPT,
            may_be_unreachable=("no rule and no any-error rule: the child is suspended and the parent is not involved",))
CHECK = {
    "id": "C07",
    "packages": ["./actor", "./supervisor"],
    "harness": ["actor/zz_verif_c07.go", "supervisor/zz_verif_c07.go"],
    "entries": [
        dict(MO, fn=P + "vC07_lookup"),
        # one-for-one with 0..2 siblings and one-for-all without siblings: ~10 s per job
        dict(FAIL, cases={"siblings": [0, 1, 2], "strategy": [0], "errType": ET}),
        dict(FAIL, cases={"siblings": [0], "strategy": [1], "errType": ET}),
        # one-for-all with siblings: ~150 s per job -> two representatives in the quick tier, all of them in the thorough tier
        dict(FAIL, cases={"siblings": [1], "strategy": [1], "errType": [0, 3]}, tiers=("quick",)),
        dict(FAIL, cases={"siblings": [1, 2], "strategy": [1], "errType": ET}, tiers=("thorough",)),
    ],
    "opts": {"unwind": 10, "birth_guard_stores": True, "equalfold_ascii": True, "feas_from_iter": 1000, "batch_fresh": True, "substitute": SUB, "go_inline": True, "select_precise": True},
    "stop": list(SUB.keys()),
    "timeout_ms": {"quick": 1500000, "thorough": 3000000},
    "descend_extra": ["golang.org/x/sync/errgroup"],
    "explanation": "supervisor.NewSupervisor/WithStrategy/WithDirective/WithAnyErrorDirective/WithRetry/WithExponentialBackoff, Supervisor.Directive/AnyErrorDirective/Rules/Strategy/getters, PID.notifyParent, handlePanicking, handleStopDirective (with the real errgroup), handleRestartDirective, recordFault, suspendGroup, backoffDelay, suspend, doReinstate and the real actors tree (addRootNode/addNode/siblings/parent/deleteNode) are executed symbolically for ONE failure of a child in a family parent + child + 0..2 siblings. The supervisor is built by the real constructor from symbolic options (strategy, a rule present/absent with any directive for each of PanicError, PanicNilError, E1, E2, an any-error rule, WithRetry(maxRetries, timeout), WithExponentialBackoff(initial, max, resetAfter)); a reference table written in the harness predicts the rule set (defaults, any-error replaces all rules) and the lookup order (own type, else any-error, else none). The child (possibly already suspended, siblings possibly suspended, arbitrary earlier fault counters and last-fault stamps for every member) fails with an error of a case-split type; notifyParent runs, the Panicking message it tells the parent is handed to the parent's handlePanicking as dispatchOne does. Asserted: no rule -> child suspended, parent not involved; Resume -> child keeps running / is reinstated, skip-next-passivation set; Stop/Restart/Escalate -> child suspended, exactly one Panicking(parent) with directive == reference lookup, strategy, supervisor, error, failing message, address; Stop -> Shutdown on the child exactly once and on every sibling exactly once iff one-for-all, node removed from the tree; Restart -> every group member's consecutive-fault counter bumped once (reset first when its last fault is older than the window = resetAfter or else the retry timeout), budget exhausted (maxRetries>0, window>0, faults>maxRetries) -> no restart, child stays suspended, one-for-all siblings suspended; else exactly one restartChild per group member, scheduled by the parent, with delay == min(initial*2^(faults-1), max) of the failing child's count; Escalate -> one PanicSignal child->parent carrying the failing message, child stays suspended. Substituted: errorType (reflect) by a type switch over the error universe giving one name per type (same for T and *T); (*PID).Tell, (*PID).Shutdown, (*PID).restartChild by recorders; the actor system by a value exposing the real tree, NoSender and isStopping=false.",
    "bounds": {'failures': '1 failure step from an arbitrary fault history (consecutive faults 0..6, last fault stamp any time <= now, per member)', 'family': 'parent + failing child + 0..2 siblings', 'error universe': 'PanicError, PanicNilError, AnyError (thrown), E1 (pointer receiver), E2 (value receiver, thrown by value or by pointer)', 'configuration': 'strategy x 2^5 rule presence x 4^5 directives x retry (any uint32, |timeout| < 2^40) x backoff (|initial|,|max|,|resetAfter| < 2^40)', 'quick': 'one-for-one: all 15 (siblings, error type) cases; one-for-all: siblings=0 all 5 error types, siblings=1 error types PanicError and E1', 'thorough': 'all 30 (strategy, siblings, error type) cases'},
    "assumptions": ['sequences of several failures are covered by the arbitrary fault counters of the single step (the counters are the only state the directive logic carries between failures)', 'the restart itself (restartChild -> Restart, PreStart, retries) and Shutdown are outside (C01/C06); escalation is followed for one level (the PanicSignal told to the parent)', 'go statements and errgroup goroutines run inline; strings.EqualFold (PID.Equals) is modelled for ASCII ids', "map iteration order of the tree's descendants is insertion order"],
}
