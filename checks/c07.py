M = "github.com/tochemey/goakt/v4/"
P = M + "actor."
SUB = {
    M + "supervisor.errorType": M + "supervisor.VC07ErrorType",
    P + "errorType": P + "vC07_errorType",
    "(*" + P + "PID).Tell": P + "vC07_tell",
    "(*" + P + "PID).Shutdown": P + "vC07_shutdown",
    "(*" + P + "PID).restartChild": P + "vC07_restartChild",
}
MO = {"replay": "model-only"}
OPT = ("no-rule", "stop-one-for-all", "restart-one-for-all")
ET = [0, 1, 2, 3, 4]
FAIL = dict(MO, fn=P + "vC07_failure", cover_optional=OPT,
            may_be_unreachable=("no rule and no any-error rule: the child is suspended and the parent is not involved",))
CHECK = {
    "id": "C07",
    "packages": ["./actor", "./supervisor"],
    "harness": ["actor/zz_verif_c07.go", "supervisor/zz_verif_c07.go"],
    "entries": [
        dict(MO, fn=P + "vC07_lookup"),
        # one-for-one with 0..2 siblings and one-for-all without siblings: ~10 s per job
        dict(FAIL, cases={"siblings": [0, 1, 2], "strategy": [0], "errType": ET}),
        dict(FAIL, cases={"siblings": [0], "strategy": [1], "errType": ET}),
        # one-for-all with siblings: ~150 s per job -> two representatives in the quick tier, all of them in the thorough tier
        dict(FAIL, cases={"siblings": [1], "strategy": [1], "errType": [0, 3]}, tiers=("quick",)),
        dict(FAIL, cases={"siblings": [1, 2], "strategy": [1], "errType": ET}, tiers=("thorough",)),
    ],
    "opts": {"unwind": 10, "birth_guard_stores": True, "equalfold_ascii": True, "feas_from_iter": 1000, "batch_fresh": True, "substitute": SUB, "go_inline": True, "select_precise": True},
    "stop": list(SUB.keys()),
    "timeout_ms": {"quick": 1500000, "thorough": 3000000},
    "descend_extra": ["golang.org/x/sync/errgroup"],
    "explanation": "TODO",
    "bounds": {},
}
