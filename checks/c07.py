M = "github.com/tochemey/goakt/v4/"
P = M + "actor."
SUB = {
    M + "supervisor.errorType": M + "supervisor.VC07ErrorType",
    P + "errorType": P + "vC07_errorType",
    "(*" + P + "PID).Tell": P + "vC07_tell",
    "(*" + P + "PID).Shutdown": P + "vC07_shutdown",
    "(*" + P + "PID).restartChild": P + "vC07_restartChild",
}
MO = {"replay": "model-only"}
CHECK = {
    "id": "C07",
    "packages": ["./actor", "./supervisor"],
    "harness": ["actor/zz_verif_c07.go", "supervisor/zz_verif_c07.go"],
    "entries": [
        dict(MO, fn=P + "vC07_lookup"),
        dict(MO, fn=P + "vC07_failure", cases={"siblings": [0, 1, 2], "strategy": [0, 1], "errType": [0, 1, 2, 3, 4]}),
    ],
    "opts": {"unwind": 10, "birth_guard_stores": True, "equalfold_ascii": True, "feas_from_iter": 1000, "substitute": SUB, "go_inline": True, "select_precise": True},
    "stop": list(SUB.keys()),
    "timeout_ms": {"quick": 1500000, "thorough": 3000000},
    "descend_extra": ["golang.org/x/sync/errgroup"],
    "explanation": "TODO",
    "bounds": {},
}
