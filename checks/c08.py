P = "github.com/tochemey/goakt/v4/actor."
CHECK = {
    "id": "C08",
    "packages": ["./actor"],
    "harness": ["actor/zz_verif_c08.go"],
    "entries": [
        {"fn": P + "vC08_backoff"},
        {"fn": P + "vC08_monotone"},
        {"fn": P + "vC08_disabled"},
        {"fn": P + "vC08_recordFault", "replay": "model-only"},
    ],
    "explanation": "backoffDelay and PID.recordFault are executed symbolically from go/ssa over all 64-bit fault counts, delays, windows and clock readings; assertions compare against an overflow-free reference.",
    "bounds": {"values": "none (full 64-bit)", "clock": "non-decreasing, < 2^62 ns"},
}
