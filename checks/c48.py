P = "github.com/tochemey/goakt/v4/internal/xsync."
CHECK = {
    "id": "C48",
    "packages": ["./internal/xsync"],
    "harness": ["internal/xsync/zz_verif_c48.go"],
    "entries": [
        {"fn": P + "vC48_step"},
        {"fn": P + "vC48_history3", "tiers": ("quick",)},
        {"fn": P + "vC48_history4", "tiers": ("thorough",)},
    ],
    "opts": {"unwind": 10},
    "explanation": "TTLMap[int,int].Set/Get/Delete/Reset/ActiveLen with evict and maybeCompact executed symbolically for every history of K operations over 3 keys with an arbitrary non-decreasing injected clock and arbitrary ttl, compared against a reference map key -> (value, expireAt).",
    "bounds": {"inductive step": "one operation from any state with <= 4 slots (cap <= 5) satisfying the representation invariant", "quick": {"history operations": 3, "keys": 3}, "thorough": {"history operations": 4, "keys": 3}, "ttl": "(0, 2^40)", "clock step": "[0, 2^40)", "initial order capacity": 2},
}
