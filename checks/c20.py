P = "github.com/tochemey/goakt/v4/internal/queue."
CHECK = {
    "id": "C20",
    "packages": ["./internal/queue", "./eventstream"],
    "harness": ["internal/queue/zz_verif_c20.go", "eventstream/zz_verif_c20.go"],
    "entries": [
        {"fn": P + "vC20_mpsc", "replay": "model-only"},
        {"fn": P + "vC20_mpmc", "replay": "model-only"},
        {"fn": "github.com/tochemey/goakt/v4/eventstream.vC20_membership", "opts": {"switch_on": "sync", "unwind": 6, "unwind_mode": "assert", "map_dedup": True}},
        {"fn": "github.com/tochemey/goakt/v4/eventstream.vC20_stream", "replay": "model-only", "opts": {"switch_on": "sync"}},
    ],
    "opts_thorough": {"rounds": 5},
    "opts": {"rounds": 3, "unwind": 4, "unwind_mode": "assume", "switch_on": "all"},
    "explanation": "internal/queue.Queue.Enqueue/Dequeue/Length/getItem/releaseItem executed symbolically under solver-chosen interleavings",
    "bounds": {"threads": "2 producers (2+1 events), 1 consumer (3 dequeues)", "rounds": 3, "CAS retry loops": "<= 3 iterations (assumed)"},
}
