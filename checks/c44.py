P = "github.com/tochemey/goakt/v4/actor."
W = "(*" + P + "workPullingProducerController)."
SUB = {
    "(*" + P + "workPullingProducerController).tell": P + "vC44_wtell",
    "(*" + P + "ReceiveContext).Shutdown": P + "vRD_shutdown",
    "(*" + P + "ReceiveContext).Watch": P + "vRD_watch",
    "(*" + P + "ReceiveContext).UnWatch": P + "vRD_unwatch",
    "(*" + P + "actorSystem).getRemoting": P + "vRD_getRemoting",
    "(*" + P + "actorSystem).authenticateWorkPullingWorker": P + "vRD_authWorker",
    "context.WithTimeout": P + "vRD_withTimeout",
}
COVOPT = ("terminated", "job-confirmed", "job-accepted", "job-requeued", "dispatched", "joined")
MBU = ("a job is handed only to a binding with free demand (the worker sequence never passes demandUpTo)",
       "a new binding starts a fresh sequence space and receives work only under demand",
       "DeliveryConfirmed names an accepted job and goes to the producer", "DeliveryConfirmed carries the job's store sequence",
       "each job of the confirmed prefix is reported to the producer exactly once")
CHECK = {
    "id": "C44",
    "packages": ["./actor", "./internal/commands"],
    "harness": ["actor/zz_verif_rd.go", "actor/zz_verif_c44.go", "internal/commands/zz_verif_rd.go"],
    "entries": [
        {"fn": P + "vC44_step", "replay": "model-only", "cases": {"kind": [1, 7, 2, 0, 3, 4, 5, 6], "seqBits": [16], "jobs": [2]},
         "opts": {"loop_bounds": {W + "dispatchPending": 3, W + "nextEligibleBinding": 3}},
         "cover_optional": COVOPT, "may_be_unreachable": MBU},
        # larger instances where they decide: Request / Ack with 3 jobs or 61-bit sequence numbers did not decide within 40 min
        # per job, 3 jobs with 61-bit sequence numbers took 30-50 min per job for the other kinds: not registered
        {"fn": P + "vC44_step", "replay": "model-only", "tiers": ("thorough",), "cases": {"kind": [0, 3, 4, 5, 6], "seqBits": [16], "jobs": [3]},
         "cover_optional": COVOPT, "may_be_unreachable": MBU},
    ],
    "opts": {"unwind": 8, "substitute": SUB, "feasibility": False, "batch_fresh": True, "reach_fresh": True, "equalfold_ascii": True,
             "loop_bounds": {W + "dispatchPending": 4, W + "nextEligibleBinding": 3}},
    "stop": [k for k in SUB.keys() if k.startswith("(*" + P)],
    "timeout_ms": {"quick": 1500000, "thorough": 3000000},
    "explanation": "One handler step of the real (*workPullingProducerController).Receive (volatile mode: queue == nil) from an arbitrary state satisfying Inv, one job per message kind (RegisterConsumer, Request plain / ViaTimeout, Ack, Produced, StoredAck, tick, Terminated): "
                   "handleRegisterConsumer, handleRequest, handleAck, handleProduced, startStore, completeStore, replyStored, handleStoredAck, startAccept, completeAccept, owns, handleTick, handleTerminated, bindingFrom, progress, dispatchPending, nextEligibleBinding, allowNextRequest, aggregateFreeDemand, sendRequestNext, emitSequenced, resendUnconfirmed, advanceConfirmed, sendConfirmation, endBinding, bindingWork.freeDemand, terminate. "
                   "Pre-state: workers w1, w2 each bound or not (either registration order, any confirmedSeq/demandUpTo below the stated bound, any nextWorker in range), a universe of 2 jobs (3 in the thorough tier for five of the seven kinds) each nowhere, in the pending pool or held unconfirmed by w1 or w2 (ghost payload and store sequence per job), handshake Idle / Credit / StoredAck (pending job new or already held), a completed token or none. "
                   "Inv: bindingOrder lists exactly the keys of bindings, each once; nextWorker <= len(bindingOrder); per binding 0 <= confirmedSeq <= currentSeq and unconfirmed = the ascending contiguous worker sequences (confirmedSeq, currentSeq]; every job is held at most once. "
                   "Message: any sender (a worker's current controller, a later incarnation of it, the producer, a stranger), current/stale session, nonce, token, any int64 confirmation/demand accepted by validate(); registration authenticated (by the substituted system lookup) as w1 or w2, same or new companion, or refused; Terminated of either worker controller, a stranger or the producer. "
                   "Asserted: Inv preserved; for every job: held exactly once afterwards unless an authenticated, in-bounds Request/Ack of its worker confirms a prefix covering its worker sequence (then gone, and reported to the producer exactly once when delivery confirmation is on) or it is the pending job accepted by the matching StoredAck (then held once) - so ending a binding (worker death, replaced companion, illegal demand/confirmation) moves ALL its unconfirmed jobs back, none lost or duplicated, payload and store sequence intact; "
                   "at every emission (tell helper substituted by the checker): the destination is the controller of exactly one live binding, workerSeq <= that binding's demandUpTo, the job is the one recorded under that sequence in that binding's unconfirmed list with its payload; a binding's currentSeq grows only under free demand; a new binding starts at sequence 0. "
                   "Liveness ('eventually handed to a worker'), the durable work queue and controller restarts are not claimed. Substituted (environment): the tell helper, (*ReceiveContext).Shutdown/Watch/UnWatch, (*actorSystem).getRemoting (identity serializer), (*actorSystem).authenticateWorkPullingWorker (arbitrary verdict), context.WithTimeout.",
    "bounds": {"workers": "2", "jobs": "2; thorough adds 3 jobs for RegisterConsumer / Produced / StoredAck / tick / Terminated", "sequence numbers of the pre-state": "< 2^16 (61-bit pre-states did not decide within the thorough budget; the handlers are translation invariant below their MaxInt64-1 overflow guards, which are therefore not exercised)", "dispatch loop": "unwinding assertion at jobs+1 iterations",
               "payloads": "1 byte", "store sequences": "distinct constants (carried data)"},
    "assumptions": ["map iteration order is insertion order (Go's randomisation is not modelled; both registration orders are explored)", "strings.EqualFold modelled for ASCII strings only",
                    "strings.TrimSpace of a symbolic string trims ASCII white space only"],
}
