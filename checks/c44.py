P = "github.com/tochemey/goakt/v4/actor."
W = "(*" + P + "workPullingProducerController)."
SUB = {
    "(*" + P + "workPullingProducerController).tell": P + "vC44_wtell",
    "(*" + P + "ReceiveContext).Shutdown": P + "vRD_shutdown",
    "(*" + P + "ReceiveContext).Watch": P + "vRD_watch",
    "(*" + P + "ReceiveContext).UnWatch": P + "vRD_unwatch",
    "(*" + P + "actorSystem).getRemoting": P + "vRD_getRemoting",
    "(*" + P + "actorSystem).authenticateWorkPullingWorker": P + "vRD_authWorker",
    "context.WithTimeout": P + "vRD_withTimeout",
}
CHECK = {
    "id": "C44",
    "packages": ["./actor", "./internal/commands"],
    "harness": ["actor/zz_verif_rd.go", "actor/zz_verif_c44.go", "internal/commands/zz_verif_rd.go"],
    "entries": [
        {"fn": P + "vC44_step", "replay": "model-only", "cases": {"kind": [0, 1, 2, 3, 4, 5, 6]},
         "cover_optional": ("terminated", "job-confirmed", "job-accepted", "job-requeued", "dispatched", "joined")},
    ],
    "opts": {"unwind": 8, "substitute": SUB, "feasibility": False, "fresh_solver": True,
             "loop_bounds": {W + "dispatchPending": 4, W + "nextEligibleBinding": 3}},
    "stop": [k for k in SUB.keys() if k.startswith("(*" + P)],
    "timeout_ms": {"quick": 400000, "thorough": 1800000},
    "explanation": "TODO",
    "bounds": {},
}
