P = "github.com/tochemey/goakt/v4/actor."
W = "(*" + P + "workPullingProducerController)."
SUB = {
    "(*" + P + "workPullingProducerController).tell": P + "vC44_wtell",
    "(*" + P + "ReceiveContext).Shutdown": P + "vRD_shutdown",
    "(*" + P + "ReceiveContext).Watch": P + "vRD_watch",
    "(*" + P + "ReceiveContext).UnWatch": P + "vRD_unwatch",
    "(*" + P + "actorSystem).getRemoting": P + "vRD_getRemoting",
    "(*" + P + "actorSystem).authenticateWorkPullingWorker": P + "vRD_authWorker",
    "context.WithTimeout": P + "vRD_withTimeout",
}
CHECK = {
    "id": "C44",
    "packages": ["./actor", "./internal/commands"],
    "harness": ["actor/zz_verif_rd.go", "actor/zz_verif_c44.go", "internal/commands/zz_verif_rd.go"],
    "entries": [
        {"fn": P + "vC44_step", "replay": "model-only", "cases_quick": {"kind": [0, 1, 2, 3, 4, 5, 6, 7, 8, 9, 10], "seqBits": [16], "jobs": [2]},
         "cases_thorough": {"kind": [0, 1, 2, 3, 4, 5, 6, 7, 8, 9, 10], "seqBits": [16, 61], "jobs": [3]},
         "opts_quick": {"loop_bounds": {W + "dispatchPending": 3, W + "nextEligibleBinding": 3}},
         "may_be_unreachable": ("a job is handed only to a binding with free demand (the worker sequence never passes demandUpTo)",
                                "a new binding starts a fresh sequence space and receives work only under demand",
                                "DeliveryConfirmed names an accepted job and goes to the producer", "DeliveryConfirmed carries the job's store sequence",
                                "each job of the confirmed prefix is reported to the producer exactly once"),
         "cover_optional": ("terminated", "job-confirmed", "job-accepted", "job-requeued", "dispatched", "joined")},
    ],
    "opts": {"unwind": 8, "substitute": SUB, "feasibility": False, "batch_fresh": True, "reach_fresh": True, "equalfold_ascii": True,
             "loop_bounds": {W + "dispatchPending": 4, W + "nextEligibleBinding": 3}},
    "stop": [k for k in SUB.keys() if k.startswith("(*" + P)],
    "timeout_ms": {"quick": 600000, "thorough": 3000000},
    "explanation": "TODO",
    "bounds": {},
}
