P = "github.com/tochemey/goakt/v4/internal/queue."
CHECK = {
    "id": "SELFTEST_CONC", "disabled": True,
    "packages": ["./internal/queue"],
    "harness": ["internal/queue/zz_verif_selftest_conc.go"],
    "entries": [{"fn": P + n, "replay": "model-only"} for n in ("vST_atomic", "vST_race", "vST_mutex", "vST_chan", "vST_join", "vST_join2")],
    "opts": {"rounds": 3, "unwind": 3},
    "explanation": "self-test of the concurrency layer",
}
