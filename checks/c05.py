P = "github.com/tochemey/goakt/v4/actor."
CHECK = {
    "id": "C05",
    "packages": ["./actor"],
    "harness": ["actor/zz_verif_c05.go"],
    "replace": [{"file": "actor/ready_queue.go", "old": "const localQueueCap = 256", "new": "const localQueueCap = 4"},
                {"file": "actor/ready_queue.go", "old": "const globalQueueInitialCap = 64", "new": "const globalQueueInitialCap = 1"}],
    "entries": [
        {"fn": P + "vC05_pushTake", "replay": "model-only", "cover_optional": ("parked",), "opts_quick": {"rounds": 2},
         "may_be_unreachable": ("no worker stays parked while work is queued",)},
        {"fn": P + "vC05_park", "replay": "model-only"},
        {"fn": P + "vC05_close", "replay": "model-only", "opts_quick": {"rounds": 2}},
        {"fn": P + "vC05_spill", "replay": "model-only", "cover_optional": ("spilled-item-taken",), "opts": {"loop_bounds": {P + "vC05_spill$1": 6}}},
        {"fn": P + "vC05_steal", "replay": "model-only", "tiers": ("thorough",)},
        {"fn": P + "vC05_ringStep", "opts": {"feasibility": True, "unwind": 6}, "unused": 0},
    ],
    "opts_thorough": {"rounds": 5},
    "opts": {"rounds": 3, "unwind": 3, "unwind_mode": "assume", "feasibility": False,
             "loop_bounds": {P + "vC05_steal$1": 5, P + "vC05_steal": 5, P + "vC05_worker": 4}},
    "timeout_ms": {"quick": 400000, "thorough": 1800000},
    "explanation": "readyQueue.push/pushLocal/take (popFront, popGlobal, trySteal/stealHalf, parkAndTake with sync.Cond)/close and globalQueue.push/pop/grow under solver-chosen interleavings with shrunk rings; plus one sequential inductive step of the local ring operations from an arbitrary valid ring state.",
    "bounds": {"threads": "1 pusher + 2 workers", "rounds": "2-3 (quick) / 3 (thorough)", "localQueueCap": 4, "globalQueueInitialCap": 1, "retry loops": "<= 3 iterations (assumed)"},
}
