P = "github.com/tochemey/goakt/v4/actor."
A = lambda n: "(*" + P + "actorSystem)." + n
T = lambda n: "(*" + P + "tree)." + n
SUB = {A("actorReference"): P + "vC11_ref", A("configPID"): P + "vC11_configPID",
       T("nodeByName"): P + "vC11_nodeByName", T("node"): P + "vC11_nodeByID", T("addNode"): P + "vC11_addNode", T("addWatcher"): P + "vC11_addWatcher",
       "(*" + P + "PID).Name": P + "vC11_pidName", "(*" + P + "PID).ID": P + "vC11_pidName"}
CHECK = {
    "id": "C11",
    "packages": ["./actor"],
    "harness": ["actor/zz_verif_c11.go"],
    "entries": [
        {"fn": P + "vC11_sameName", "replay": "model-only"},
        {"fn": P + "vC11_twoNames", "replay": "model-only"},
        {"fn": P + "vC11_spawnAndFunc", "replay": "model-only"},
        {"fn": P + "vC11_winnerCancelled", "replay": "model-only", "opts_quick": {"rounds": 2}},
    ],
    "opts": {"rounds": 3, "unwind": 3, "unwind_mode": "assume", "feasibility": False, "substitute": SUB, "go_inline": True},
    "stop": list(SUB.keys()),
    "timeout_ms": {"quick": 400000, "thorough": 1800000},
    "explanation": "actorSystem.Spawn (local arm), newSpawnConfig/Validate, runSpawnActivation with the real x/sync/singleflight, checkSpawnPreconditions, completeSpawn, attachAndPublish (counter and canonical-duplicate branch), publishSpawnedActor under solver-chosen interleavings; instance creation (configPID) and the tree operations (nodeByName/node/addNode/addWatcher) are substituted by a mutex-protected ghost tree.",
    "bounds": {"threads": "2 concurrent Spawn calls (same name / different names)", "rounds": 3, "singleflight goroutine": "runs inline at its spawn point"},
}
