P = "github.com/tochemey/goakt/v4/actor."
A = lambda n: "(*" + P + "actorSystem)." + n
T = lambda n: "(*" + P + "tree)." + n
SUB = {A("actorReference"): P + "vC11_ref", A("configPID"): P + "vC11_configPID",
       T("nodeByName"): P + "vC11_nodeByName", T("node"): P + "vC11_nodeByID", T("addNode"): P + "vC11_addNode", T("addWatcher"): P + "vC11_addWatcher",
       "(*" + P + "PID).Name": P + "vC11_pidName", "(*" + P + "PID).ID": P + "vC11_pidName"}
CHECK = {
    "id": "C11",
    "packages": ["./actor"],
    "harness": ["actor/zz_verif_c11.go"],
    "entries": [
        {"fn": P + "vC11_sameName", "replay": "model-only"},
        {"fn": P + "vC11_twoNames", "replay": "model-only"},
        {"fn": P + "vC11_spawnAndFunc", "replay": "model-only"},
        {"fn": P + "vC11_winnerCancelled", "replay": "model-only", "opts_quick": {"rounds": 2}},
    ],
    "opts": {"rounds": 3, "unwind": 3, "unwind_mode": "assume", "feasibility": False, "substitute": SUB, "go_inline": True},
    "stop": list(SUB.keys()),
    "timeout_ms": {"quick": 400000, "thorough": 1800000},
    "explanation": "actorSystem.Spawn (local arm) and actorSystem.SpawnNamedFromFunc (newFuncConfig/newFuncActor), newSpawnConfig/Validate, runSpawnActivation (context pre-check, DoChan, context-aware select, retry-once on an inherited cancellation) with the real x/sync/singleflight, checkSpawnPreconditions, completeSpawn, attachAndPublish (counter and canonical-duplicate branch), publishSpawnedActor under solver-chosen interleavings. Entries: two Spawn of one name; two Spawn of different names; Spawn racing SpawnNamedFromFunc of one name (the two entry points must serialise on the same key); three Spawn of one name where the first caller's context (a harness context type with a done channel) is cancelled by a fourth thread at an arbitrary moment, so a single-flight winner may abort mid-initialisation and its coalesced waiters retry. Asserted: at most one instance is ever started for a name, every successful caller receives the same PID, callers with a live context succeed, actorsCounter == 1 after settling. Instance creation (configPID) is substituted by a ghost that fails with ctx.Err() when the caller's context is cancelled at that point (initialisation runs under the caller's context) and otherwise records a started, running instance; the tree operations (nodeByName/node/addNode/addWatcher), PID.Name/ID and actorReference are substituted by a ghost name->node map whose operations are atomic (no synchronisation operation between check and insert).",
    "bounds": {"threads": "2 concurrent spawns (same name / different names / Spawn + SpawnNamedFromFunc); 3 concurrent Spawn + 1 cancelling thread",
               "rounds": "3 (vC11_winnerCancelled: 2 in the quick tier, 3 in thorough)", "singleflight goroutine": "runs inline at its spawn point",
               "retry": "a waiter retries at most once (the code's own retried flag; loop unwound 3)"},
    "assumptions": ["an actor initialisation aborted by the caller's context leaves no running instance (rollback inside configPID/newPID is not executed here)"],
}
