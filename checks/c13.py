P = "github.com/tochemey/goakt/v4/actor."
SHAPES = [1, 2, 3, 4, 5, 6]
CHECK = {
    "id": "C13",
    "packages": ["./actor"],
    "harness": ["actor/zz_verif_c13.go"],
    "entries": [
        {"fn": P + "vC13_history4", "tiers": ("quick",), "cases": {"prefix": [0]}, "cover_optional": ("unstashAll-many",)},
        # the shared context pool may hit or miss at any time (other actors use it concurrently)
        {"fn": P + "vC13_history3", "cases": {"prefix": [0]}, "opts": {"select_precise": False},
         "cover_optional": ("unstashAll-many", "both-nonempty-at-end")},
        {"fn": P + "vC13_suffix2", "tiers": ("quick",), "cases": {"prefix": SHAPES}},
        {"fn": P + "vC13_history5", "tiers": ("thorough",), "cases": {"prefix": [0]}},
        {"fn": P + "vC13_suffix3", "tiers": ("thorough",), "cases": {"prefix": SHAPES}},
        {"fn": P + "vC13_nobuffer"},
        {"fn": P + "vC13_dbg", "tiers": ("x",)},
    ],
    "replace": [{"file": "actor/pools.go", "old": "const contextPoolSize = 8192", "new": "const contextPoolSize = 2"}],
    # no loop-feasibility queries (each costs ~0.5 s here): loops run to their concrete bound, or to the stated bound whose
    # unwinding assertion is an obligation
    "opts": {"unwind": 12, "feas_from_iter": 1000, "select_precise": True,
             "loop_bounds": {"(*" + P + "PID).unstashAll": 5}},
    "timeout_ms": {"quick": 240000, "thorough": 1800000},
    "explanation": "TODO",
    "bounds": {},
}
