P = "github.com/tochemey/goakt/v4/actor."
CHECK = {
    "id": "C13",
    "packages": ["./actor"],
    "harness": ["actor/zz_verif_c13.go"],
    "entries": [
        {"fn": P + "vC13_history5", "tiers": ("quick",)},
        {"fn": P + "vC13_history6", "tiers": ("thorough",)},
        {"fn": P + "vC13_nobuffer"},
    ],
    "replace": [{"file": "actor/pools.go", "old": "const contextPoolSize = 8192", "new": "const contextPoolSize = 2"}],
    "opts": {"unwind": 10},
    "explanation": "TODO",
    "bounds": {},
}
