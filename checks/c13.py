P = "github.com/tochemey/goakt/v4/actor."
CHECK = {
    "id": "C13",
    "packages": ["./actor"],
    "harness": ["actor/zz_verif_c13.go"],
    "entries": [
        {"fn": P + "vC13_history3", "tiers": ("x",), "cases": {"prefix": [0]}},
        {"fn": P + "vC13_history4", "tiers": ("quick",), "cases": {"prefix": [0]}},
        {"fn": P + "vC13_suffix3", "tiers": ("quick",), "cases": {"prefix": [1, 2, 3, 4, 5, 6]}},
        {"fn": P + "vC13_history5", "tiers": ("thorough",), "cases": {"prefix": [0]}},
        {"fn": P + "vC13_suffix4", "tiers": ("thorough",), "cases": {"prefix": [1, 2, 3, 4, 5, 6]}},
        {"fn": P + "vC13_nobuffer"},
    ],
    "replace": [{"file": "actor/pools.go", "old": "const contextPoolSize = 8192", "new": "const contextPoolSize = 2"}],
    "opts": {"unwind": 12},
    "explanation": "TODO",
    "bounds": {},
}
