P = "github.com/tochemey/goakt/v4/actor."
SHAPES = [1, 2, 3, 4, 5, 6, 7]
CHECK = {
    "id": "C13",
    "packages": ["./actor"],
    "harness": ["actor/zz_verif_c13.go"],
    "entries": [
        {"fn": P + "vC13_history4", "tiers": ("quick",), "cases": {"prefix": [0], "share": [0, 1]}, "cover_optional": ("unstashAll-many",)},
        # the shared context pool may hit or miss at any time (other actors use it concurrently)
        {"fn": P + "vC13_history3", "cases": {"prefix": [0], "share": [0, 1]}, "opts": {"select_precise": False},
         "cover_optional": ("unstashAll-many", "both-nonempty-at-end")},
        {"fn": P + "vC13_suffix2", "tiers": ("quick",), "cases": {"prefix": SHAPES, "share": [0]}},
        {"fn": P + "vC13_suffix2", "tiers": ("quick",), "cases": {"prefix": [2, 4, 7], "share": [1]}},
        {"fn": P + "vC13_history5", "tiers": ("thorough",), "cases": {"prefix": [0], "share": [0, 1]}},
        {"fn": P + "vC13_suffix3", "tiers": ("thorough",), "cases": {"prefix": SHAPES, "share": [0, 1]}},
        {"fn": P + "vC13_nobuffer"},
    ],
    "replace": [{"file": "actor/pools.go", "old": "const contextPoolSize = 8192", "new": "const contextPoolSize = 2"}],
    # no loop-feasibility queries (each costs ~0.5 s here): loops run to their concrete bound, or to the stated bound whose
    # unwinding assertion is an obligation
    "opts": {"unwind": 12, "feas_from_iter": 1000, "select_precise": True,
             "loop_bounds": {"(*" + P + "PID).unstashAll": 5}},
    "timeout_ms": {"quick": 1500000, "thorough": 5400000},
    "explanation": 'PID.stash/unstash/unstashAll (through ReceiveContext.Stash/Unstash/UnstashAll), cloneContext, getContext and the context pool, PID.doReceive and the real UnboundedMailbox (main mailbox and stash buffer: Enqueue/Dequeue/IsEmpty) are executed symbolically on one actor. A history is a sequence of decisions {a ghost-tagged message arrives (real doReceive), the actor takes its next message and stashes it, takes and handles it, calls Unstash, calls UnstashAll}; message sender (none / two actors), Ask-ness (response channel, request id) and are symbolic; whether every delivery carries its own payload value or all deliveries re-use one payload value is a case split. After every take and at the end (both real queues drained) the delivered contexts are compared with two reference FIFO queues: same tags in the same order, each with its original message, sender, response channel, request id, self. A separate entry shows that without a stash buffer (no state, or state without box) every operation reports ErrStashBufferNotSet and delivers nothing. Nothing is substituted; counterexamples replay natively. The actor is inside its own turn (schedState = Processing), so doReceive does not call the dispatcher.',
    "bounds": {'quick': {'from a fresh actor': 'every history of 4 decisions (+ every history of 3 decisions with the shared context pool hitting/missing arbitrarily)', 'from 7 prepared states (case split; main mailbox 0..3, stash 0..3 messages, used sentinels, hot pool)': 'every continuation of 2 decisions'}, 'thorough': {'from a fresh actor': 'every history of 5 decisions', 'from the 7 prepared states': 'every continuation of 3 decisions'}, 'shrunk constant': 'contextPoolSize 8192 -> 2 (pool of 2 pre-warmed contexts; reuse is reached within the bound)', 'unstashAll loop': '5 iterations (unwinding assertion proven)'},
    "assumptions": ['the context pool is used by this actor only (select{case <-pool: default:} takes the case exactly when enabled), except in entry vC13_history3 where every pool access may hit or miss', "one actor, sequential: concurrent producers on the mailboxes are C04's subject"],
}
